//go:build verif

// drv_server: connection lifecycle of the REAL server.ServeTCP / server.ServeUDP (pkg/server),
// driven by behaviours of spec/ServerConn.tla (extra coverage attached to C16 / C03).
//
// tcp: harness listener + scripted connections (sconn).  Read deadlines are VIRTUAL: SetReadDeadline
// is recorded (Arm, class derived from the requested duration) and the controller decides when the
// deadline "passes" (TimerFire) - no real-time waiting.  The handler is a gate: the controller decides
// when and what each concurrent handler returns.
// udp: real loopback sockets (ServeUDP needs *net.UDPConn), optionally a wildcard listener queried via
// 127.0.0.2 (the reply must come from the address that was queried).
//
// One recorder per script orders all events under one mutex.  Environment events are logged BEFORE they
// take effect, observations when they are made.  The driver never judges: spec/ServerConn_Trace.tla does.
package main

import (
	"bytes"
	"context"
	"encoding/binary"
	"fmt"
	"io"
	"math/rand"
	"net"
	"net/netip"
	"os"
	"runtime"
	"sort"
	"strings"
	"sync"
	"sync/atomic"
	"time"

	"github.com/IrineSistiana/mosdns/v5/pkg/server"
	"github.com/miekg/dns"

	"verif/harness/vh"
)

type Step struct {
	A   string `json:"a"`
	C   int    `json:"c,omitempty"`
	Q   int    `json:"q,omitempty"`
	K   string `json:"k,omitempty"`
	Cls string `json:"cls,omitempty"`
}
type Beh struct {
	Steps  []Step `json:"steps"`
	NoWait bool   `json:"nowait,omitempty"`
	Var    int    `json:"var,omitempty"` // concretization variant (idle option / listener kind), chosen by the orchestrator's rng
}
type Job struct {
	Tcp     []Beh `json:"tcp"`
	Udp     []Beh `json:"udp"`
	Workers int   `json:"workers"`
	WaitMs  int   `json:"wait_ms"`
}
type Ev map[string]any
type Out struct {
	Kind    string `json:"kind"` // tcp | udp | leak
	Idx     int    `json:"idx"`
	Beh     *Beh   `json:"beh,omitempty"`
	Steered bool   `json:"steered"`
	Why     string `json:"why,omitempty"`
	Cfg     string `json:"cfg,omitempty"`
	Events  []Ev   `json:"events"`
	Diag    string `json:"diag,omitempty"`
	Ms      int64  `json:"ms"`
}

var waitBound = 10 * time.Second

// ---------------------------------------------------------------------------------------------
// recorder

type rec struct {
	mu       sync.Mutex
	cond     *sync.Cond
	evs      []Ev
	stopped  bool
	accepted map[int]bool
	arms     map[int]int
	closed   map[int]bool
	invoked  map[int]bool
	done     map[int]bool // Write or WriteFail seen
	returned bool
}

func newRec() *rec {
	r := &rec{accepted: map[int]bool{}, arms: map[int]int{}, closed: map[int]bool{}, invoked: map[int]bool{}, done: map[int]bool{}}
	r.cond = sync.NewCond(&r.mu)
	return r
}

func (r *rec) log(e Ev) {
	r.mu.Lock()
	r.logLocked(e)
	r.mu.Unlock()
}

func (r *rec) logLocked(e Ev) {
	if r.stopped {
		return
	}
	r.evs = append(r.evs, e)
	c, _ := e["c"].(int)
	q, _ := e["q"].(int)
	switch e["ev"] {
	case "Accept":
		r.accepted[c] = true
	case "Arm":
		r.arms[c]++
	case "Close":
		r.closed[c] = true
	case "Invoke":
		r.invoked[q] = true
	case "Write", "WriteFail", "PartialWrite":
		r.done[q] = true
	case "ServeReturn":
		r.returned = true
	}
	r.cond.Broadcast()
}

func (r *rec) poke() { r.mu.Lock(); r.cond.Broadcast(); r.mu.Unlock() }

// wait until pred (evaluated under r.mu) holds; false after the bound
func (r *rec) wait(bound time.Duration, pred func() bool) bool {
	deadline := time.Now().Add(bound)
	t := time.AfterFunc(bound+5*time.Millisecond, r.poke)
	defer t.Stop()
	r.mu.Lock()
	defer r.mu.Unlock()
	for !pred() {
		if !time.Now().Before(deadline) {
			return false
		}
		r.cond.Wait()
	}
	return true
}

func (r *rec) snapshot() []Ev {
	r.mu.Lock()
	defer r.mu.Unlock()
	return append([]Ev(nil), r.evs...)
}

func (r *rec) stop() []Ev {
	r.mu.Lock()
	defer r.mu.Unlock()
	r.stopped = true
	return r.evs
}

// ---------------------------------------------------------------------------------------------
// handler gate

type decision struct {
	nilReply bool
	size     int
}

type call struct {
	ctx      context.Context
	gate     chan decision
	released bool
}

type gateHandler struct {
	rec  *rec
	udp  bool
	mu   sync.Mutex
	byID map[uint16]int     // wire id -> spec q
	sent map[int]*dns.Msg   // spec q -> query as sent
	addr map[int]netip.Addr // spec q -> expected client address
	conn map[netip.Addr]int // client address -> spec c
	call map[int]*call
	exp  map[int][]byte // spec q -> payload returned by the handler
	auto bool
	rng  *rand.Rand
}

func (h *gateHandler) Handle(ctx context.Context, q *dns.Msg, meta server.QueryMeta, pack func(m *dns.Msg) (*[]byte, error)) *[]byte {
	h.mu.Lock()
	qn, known := h.byID[q.Id]
	var ok bool
	var why string
	c := h.conn[meta.ClientAddr.Unmap()]
	if known {
		s := h.sent[qn]
		ok = len(q.Question) == 1 && q.Question[0] == s.Question[0] && q.RecursionDesired == s.RecursionDesired && len(q.Extra) == len(s.Extra)
		if !ok {
			why = "query differs from the one sent"
		}
		if meta.ClientAddr.Unmap() != h.addr[qn] || meta.FromUDP != h.udp || meta.ServerName != "" || meta.UrlPath != "" {
			ok, why = false, fmt.Sprintf("meta %+v", meta)
		}
	} else {
		why = fmt.Sprintf("unknown id %d", q.Id)
	}
	cl := &call{ctx: ctx, gate: make(chan decision, 1)}
	if known {
		if h.call[qn] != nil {
			ok, why = false, "handler invoked twice for one query"
		} else {
			h.call[qn] = cl
		}
	}
	auto := h.auto
	e := Ev{"ev": "Invoke", "q": qn, "c": c, "ok": ok, "ctxdone": false}
	if why != "" {
		e["why"] = why
	}
	h.rec.mu.Lock()
	e["ctxdone"] = ctx.Err() != nil
	h.rec.logLocked(e)
	h.rec.mu.Unlock()
	if auto && known {
		cl.released = true
		h.rec.log(Ev{"ev": "Release", "q": qn, "k": "reply"})
		cl.gate <- decision{size: 0}
	}
	h.mu.Unlock()
	if !known {
		return nil
	}

	d := <-cl.gate
	if d.nilReply {
		return nil
	}
	r := new(dns.Msg)
	r.SetReply(q)
	owner := "noquestion.test." // a (mutated) reader may hand over a message without a question: never panic in the harness
	if len(q.Question) > 0 {
		owner = q.Question[0].Name
	}
	for n := 0; n < d.size; n += 200 {
		r.Answer = append(r.Answer, &dns.TXT{Hdr: dns.RR_Header{Name: owner, Rrtype: dns.TypeTXT, Class: dns.ClassINET, Ttl: 5},
			Txt: []string{strings.Repeat("x", 180)}})
	}
	p, err := pack(r)
	if err != nil {
		fmt.Fprintln(os.Stderr, "drv_server: pack failed:", err)
		return nil
	}
	h.mu.Lock()
	h.exp[qn] = append([]byte(nil), *p...)
	h.mu.Unlock()
	return p
}

// ---------------------------------------------------------------------------------------------
// tcp fakes

type timeoutErr struct{}

func (timeoutErr) Error() string   { return "i/o timeout (virtual deadline)" }
func (timeoutErr) Timeout() bool   { return true }
func (timeoutErr) Temporary() bool { return true }
func (timeoutErr) Is(t error) bool { return t == os.ErrDeadlineExceeded }

type unit struct {
	end int64
	q   int // 0: not a query
}

type sconn struct {
	c       int
	s       *script
	mu      sync.Mutex
	cond    *sync.Cond
	buf     []byte
	units   []unit
	fed     int64
	eof     bool
	armed   bool
	expired bool
	dribble bool
	wmu     sync.Mutex // writers are serialized like on a real connection
	stalled bool       // the client has stopped reading
	warmed  bool       // the server has set a write deadline
	// read without conn.mu by wait predicates
	closed   atomic.Bool
	consumed atomic.Int64
	blocked  atomic.Bool // a Read is parked waiting for bytes
	wblocked atomic.Bool // a Write is parked because the client is stalled
	cliEOF   bool
	part     []byte // rest of a frame delivered in part
	partQ    int
}

func (c *sconn) Read(p []byte) (int, error) {
	c.mu.Lock()
	defer c.mu.Unlock()
	for {
		if c.closed.Load() {
			return 0, net.ErrClosed
		}
		if c.expired {
			return 0, timeoutErr{}
		}
		if len(c.buf) > 0 {
			n := len(p)
			if n > len(c.buf) {
				n = len(c.buf)
			}
			if c.dribble && n > 1 {
				n = 1
			}
			copy(p, c.buf[:n])
			c.buf = c.buf[n:]
			c.consumed.Add(int64(n))
			c.s.rec.poke()
			return n, nil
		}
		if c.eof {
			return 0, io.EOF
		}
		c.blocked.Store(true)
		c.s.rec.poke()
		c.cond.Wait()
		c.blocked.Store(false)
	}
}

func (c *sconn) Write(b []byte) (int, error) {
	c.wmu.Lock()
	defer c.wmu.Unlock()
	c.mu.Lock()
	defer c.mu.Unlock()
	q, whole := c.s.classifyFrame(b)
	for c.stalled && !c.closed.Load() {
		if c.warmed && whole && q != 0 && len(b) > 1 {
			// The client does not read and the server has armed a write deadline: it passes (virtual time is free to
			// run while the client is stalled) and the write returns after a part of the frame.
			n := 1 + c.s.rng2.Intn(len(b)-1)
			c.s.rec.log(Ev{"ev": "PartialWrite", "q": q, "c": c.c, "n": n, "len": len(b)})
			return n, timeoutErr{}
		}
		c.wblocked.Store(true)
		c.s.rec.poke()
		c.cond.Wait()
		c.wblocked.Store(false)
	}
	if c.closed.Load() {
		if whole && q != 0 {
			c.s.rec.log(Ev{"ev": "WriteFail", "q": q, "c": c.c})
		}
		return 0, net.ErrClosed
	}
	if !whole || q == 0 {
		c.s.rec.log(Ev{"ev": "BadWrite", "c": c.c, "n": len(b)})
		return len(b), nil
	}
	c.s.h.mu.Lock()
	ok := bytes.Equal(b, c.s.h.exp[q])
	c.s.h.mu.Unlock()
	c.s.rec.log(Ev{"ev": "Write", "q": q, "c": c.c, "ok": ok, "n": len(b)})
	return len(b), nil
}

func (c *sconn) isStalled() bool { c.mu.Lock(); defer c.mu.Unlock(); return c.stalled }

func (c *sconn) setStall(v bool) {
	c.mu.Lock()
	if c.stalled != v {
		if v {
			c.s.rec.log(Ev{"ev": "Stall", "c": c.c})
		} else {
			c.s.rec.log(Ev{"ev": "Unstall", "c": c.c})
		}
		c.stalled = v
		c.cond.Broadcast()
	}
	c.mu.Unlock()
}

func (c *sconn) Close() error {
	c.mu.Lock()
	defer c.mu.Unlock()
	if !c.closed.Load() {
		c.s.rec.log(Ev{"ev": "Close", "c": c.c})
		c.closed.Store(true)
		c.cond.Broadcast()
	}
	return nil
}

func (c *sconn) SetReadDeadline(t time.Time) error {
	c.mu.Lock()
	defer c.mu.Unlock()
	if c.closed.Load() {
		return net.ErrClosed
	}
	if t.IsZero() {
		c.armed, c.expired = false, false
		c.s.rec.log(Ev{"ev": "Disarm", "c": c.c})
		return nil
	}
	d := time.Until(t)
	c.armed, c.expired = true, false
	c.s.rec.log(Ev{"ev": "Arm", "c": c.c, "cls": c.s.classify(d), "d_ms": d.Milliseconds()})
	return nil
}
func (c *sconn) SetDeadline(t time.Time) error {
	c.SetWriteDeadline(t)
	return c.SetReadDeadline(t)
}
func (c *sconn) SetWriteDeadline(t time.Time) error {
	c.mu.Lock()
	defer c.mu.Unlock()
	if c.closed.Load() {
		return net.ErrClosed
	}
	c.warmed = !t.IsZero()
	c.cond.Broadcast()
	return nil
}
func (c *sconn) LocalAddr() net.Addr                { return &net.TCPAddr{IP: net.IPv4(127, 0, 0, 1), Port: 53} }
func (c *sconn) RemoteAddr() net.Addr {
	return &net.TCPAddr{IP: net.IP{127, 0, 0, byte(10 + c.c)}, Port: 40000 + c.c}
}

// client side ------------------------------------------------------------

func (c *sconn) feed(e Ev, b []byte, q int, complete bool) {
	c.mu.Lock()
	if e != nil {
		c.s.rec.log(e)
	}
	c.buf = append(c.buf, b...)
	c.fed += int64(len(b))
	if complete {
		c.units = append(c.units, unit{end: c.fed, q: q})
	}
	c.cond.Broadcast()
	c.mu.Unlock()
}

func (c *sconn) halfClose() {
	c.mu.Lock()
	c.s.rec.log(Ev{"ev": "HalfClose", "c": c.c})
	c.eof = true
	c.cond.Broadcast()
	c.mu.Unlock()
}

func (c *sconn) fire(onTrack bool) {
	c.mu.Lock()
	defer c.mu.Unlock()
	if c.closed.Load() || c.expired {
		return
	}
	if !c.armed {
		// the schedule waited for the server to arm a deadline before this step; off the schedule it is a harness race
		if onTrack {
			c.s.rec.log(Ev{"ev": "TimerFireNoDeadline", "c": c.c})
		}
		return
	}
	c.s.rec.log(Ev{"ev": "TimerFire", "c": c.c})
	c.expired = true
	c.cond.Broadcast()
}

type lockedRand struct {
	mu sync.Mutex
	r  *rand.Rand
}

func (l *lockedRand) Intn(n int) int { l.mu.Lock(); defer l.mu.Unlock(); return l.r.Intn(n) }

type chanListener struct {
	s      *script
	ch     chan *sconn
	closed chan struct{}
	once   sync.Once
}

func (l *chanListener) Accept() (net.Conn, error) {
	select {
	case c := <-l.ch:
		l.s.rec.log(Ev{"ev": "Accept", "c": c.c})
		return c, nil
	case <-l.closed:
		return nil, net.ErrClosed
	}
}
func (l *chanListener) Close() error   { l.once.Do(func() { close(l.closed) }); return nil }
func (l *chanListener) Addr() net.Addr { return &net.TCPAddr{IP: net.IPv4(127, 0, 0, 1), Port: 53} }

// ---------------------------------------------------------------------------------------------
// script

type script struct {
	idx     int
	udp     bool
	beh     *Beh
	rng     *rand.Rand
	rng2    *lockedRand // used from server goroutines
	rec     *rec
	h       *gateHandler
	steered bool
	why     string
	cfg     string
	// tcp
	ln       *chanListener
	conns    map[int]*sconn
	firstT   time.Duration
	idleT    time.Duration
	lnClosed bool
	armsSeen map[int]int
	// udp
	srv     *net.UDPConn
	clis    []*net.UDPConn
	dst     map[int]*net.UDPAddr // per client socket: where it sends
	qsock   map[int]int
	udpSent map[int]bool
}

func (s *script) classify(d time.Duration) string {
	// the requested duration can only be shorter than nominal (time passes between time.Now() and the call)
	const up = 50 * time.Millisecond
	if d <= 0 {
		return "other"
	}
	if s.idleT == s.firstT {
		if d <= s.firstT+up {
			return "both"
		}
		return "other"
	}
	lo := s.idleT - time.Minute
	if lo < s.firstT+up {
		lo = s.firstT + up
	}
	switch {
	case d <= s.firstT+up:
		return "first"
	case d > lo && d <= s.idleT+up:
		return "idle"
	}
	return "other"
}

// classifyFrame: is b exactly one length-prefixed DNS message carrying the id of a known query?
func (s *script) classifyFrame(b []byte) (q int, whole bool) {
	if len(b) < 2+12 || int(binary.BigEndian.Uint16(b)) != len(b)-2 {
		return 0, false
	}
	m := new(dns.Msg)
	if m.Unpack(b[2:]) != nil {
		return 0, false
	}
	s.h.mu.Lock()
	q = s.h.byID[m.Id]
	s.h.mu.Unlock()
	return q, true
}

func (s *script) newQuery(q, c int, addr netip.Addr) []byte {
	m := new(dns.Msg)
	s.h.mu.Lock()
	var id uint16
	for {
		id = uint16(s.rng.Intn(65536))
		if _, dup := s.h.byID[id]; !dup {
			break
		}
	}
	m.SetQuestion(fmt.Sprintf("q%d.s%d.verif.test.", q, s.idx), []uint16{dns.TypeA, dns.TypeAAAA, dns.TypeTXT}[s.rng.Intn(3)])
	m.Id = id
	if s.rng.Intn(3) == 0 {
		m.SetEdns0(1232, false)
	}
	s.h.byID[id] = q
	s.h.sent[q] = m
	s.h.addr[q] = addr
	s.h.mu.Unlock()
	w, err := m.Pack()
	if err != nil {
		panic(err)
	}
	return w
}

func frame(w []byte) []byte {
	b := make([]byte, 2+len(w))
	binary.BigEndian.PutUint16(b, uint16(len(w)))
	copy(b[2:], w)
	return b
}

func (s *script) garbageMsg() []byte {
	// a message the DNS parser must refuse
	switch s.rng.Intn(3) {
	case 0: // header announces a question, name is a dangling compression pointer
		return []byte{0x12, 0x34, 1, 0, 0, 1, 0, 0, 0, 0, 0, 0, 0xC0, 0xFF, 0, 1, 0, 1}
	case 1: // label longer than the message
		return []byte{0x12, 0x35, 1, 0, 0, 1, 0, 0, 0, 0, 0, 0, 63, 'a', 'b', 0, 0, 1, 0, 1}
	}
	// reserved label type
	return []byte{0x12, 0x36, 1, 0, 0, 1, 0, 0, 0, 0, 0, 0, 0x80, 'a', 0, 0, 1, 0, 1}
}

func (s *script) fail(why string) {
	if s.steered {
		s.steered, s.why = false, why
	}
}

func (s *script) connClosed(c int) bool {
	sc := s.conns[c]
	return sc != nil && sc.closed.Load()
}

// wait for a server reaction; gives up early (without an alarm) when the connection was closed meanwhile
func (s *script) waitOn(c int, what string, pred func() bool) bool {
	if s.beh.NoWait {
		return true
	}
	bound := waitBound
	if !s.steered {
		bound = 200 * time.Millisecond // already off the generated schedule: best effort, no claim
	}
	closedEarly := false
	ok := s.rec.wait(bound, func() bool {
		if pred() {
			return true
		}
		if c != 0 && s.connClosed(c) {
			closedEarly = true
			return true
		}
		return false
	})
	if !ok {
		if !s.steered {
			return true
		}
		s.rec.log(Ev{"ev": "Quiet", "waiting_for": what})
		s.fail("no reaction within the bound: " + what)
		return false
	}
	if closedEarly {
		s.fail("diverged (connection closed): " + what)
	}
	return true
}

func (s *script) release(q int, k string) bool {
	s.h.mu.Lock()
	cl := s.h.call[q]
	s.h.mu.Unlock()
	if cl == nil {
		bound := waitBound
		if s.beh.NoWait || !s.steered {
			bound = 200 * time.Millisecond
		}
		s.h.mu.Lock()
		c := s.h.conn[s.h.addr[q]]
		s.h.mu.Unlock()
		gone := false
		ok := s.rec.wait(bound, func() bool {
			if s.rec.invoked[q] {
				return true
			}
			if (s.udp && s.lnClosed) || (!s.udp && (c == 0 || s.connClosed(c))) {
				gone = true
				return true
			}
			return false
		})
		if !ok || gone {
			// no claim: whether the query had to reach the handler is decided by the Invoke step / the wind-down
			s.fail(fmt.Sprintf("Release(%d): handler was not invoked", q))
			return true
		}
		s.h.mu.Lock()
		cl = s.h.call[q]
		s.h.mu.Unlock()
	}
	s.h.mu.Lock()
	if cl == nil || cl.released {
		s.h.mu.Unlock()
		return true
	}
	cl.released = true
	size := 0
	if k == "reply" {
		switch s.rng.Intn(4) {
		case 0:
			size = 3000
		case 1:
			size = 40000
		}
		if s.udp && size > 1000 {
			size = 800
		}
	}
	s.rec.log(Ev{"ev": "Release", "q": q, "k": k})
	cl.gate <- decision{nilReply: k == "nil", size: size}
	c := s.h.conn[s.h.addr[q]]
	s.h.mu.Unlock()
	if sc := s.conns[c]; !s.udp && k == "reply" && sc != nil && sc.isStalled() {
		// the client is stalled: let the server reach its Write (it parks there, or gives up on a write deadline)
		// before the schedule goes on - otherwise the stall would be over before it had any effect
		s.rec.wait(500*time.Millisecond, func() bool { return sc.wblocked.Load() || s.rec.done[q] || sc.closed.Load() })
	}
	return true
}

func (s *script) runTCP() {
	s.conns = map[int]*sconn{}
	s.armsSeen = map[int]int{}
	var idleOpt time.Duration
	switch s.beh.Var % 3 {
	case 0:
		idleOpt, s.firstT, s.idleT, s.cfg = time.Hour, 2*time.Second, time.Hour, "idle=1h"
	case 1:
		idleOpt, s.firstT, s.idleT, s.cfg = time.Second, time.Second, time.Second, "idle=1s"
	case 2:
		idleOpt, s.firstT, s.idleT, s.cfg = 0, 2*time.Second, 10*time.Second, "idle=default"
	}
	s.ln = &chanListener{s: s, ch: make(chan *sconn), closed: make(chan struct{})}
	s.rec.log(Ev{"ev": "Reset", "mode": "tcp", "cfg": s.cfg, "idx": s.idx})
	go func() {
		err := server.ServeTCP(s.ln, s.h, server.TCPServerOpts{IdleTimeout: idleOpt})
		s.rec.log(Ev{"ev": "ServeReturn", "err": err != nil})
	}()

	for _, st := range s.beh.Steps {
		if !s.stepTCP(st) {
			break
		}
	}
	s.windDownTCP()
}

func (s *script) stepTCP(st Step) bool {
	sc := s.conns[st.C]
	switch st.A {
	case "Accept":
		if s.lnClosed || sc != nil {
			s.fail("Accept impossible")
			return true
		}
		sc = &sconn{c: st.C, s: s, dribble: s.rng.Intn(4) == 0}
		sc.cond = sync.NewCond(&sc.mu)
		s.conns[st.C] = sc
		addr, _ := netip.AddrFromSlice(sc.RemoteAddr().(*net.TCPAddr).IP.To4())
		s.h.mu.Lock()
		s.h.conn[addr] = st.C
		s.h.mu.Unlock()
		select {
		case s.ln.ch <- sc:
		case <-time.After(waitBound):
			s.rec.log(Ev{"ev": "Quiet", "waiting_for": "Accept"})
			s.fail("listener does not accept")
			return false
		}
		// a dial is synchronous even when the schedule is run without waiting
		if !s.rec.wait(waitBound, func() bool { return s.rec.accepted[st.C] }) {
			s.rec.log(Ev{"ev": "Quiet", "waiting_for": "Accept"})
			s.fail("no reaction within the bound: Accept")
			return false
		}
		return true
	case "Arm":
		s.armsSeen[st.C]++
		n := s.armsSeen[st.C]
		return s.waitOn(st.C, fmt.Sprintf("Arm(%d) #%d", st.C, n), func() bool { return s.rec.arms[st.C] >= n })
	case "Send", "SendPart":
		if sc == nil || sc.cliEOF || sc.part != nil {
			s.fail(st.A + " impossible")
			return true
		}
		addr, _ := netip.AddrFromSlice(sc.RemoteAddr().(*net.TCPAddr).IP.To4())
		f := frame(s.newQuery(st.Q, st.C, addr))
		if st.A == "SendPart" {
			cut := 1 + s.rng.Intn(len(f)-1)
			if s.rng.Intn(3) == 0 {
				cut = 1 // inside the length prefix
			}
			sc.part, sc.partQ = f[cut:], st.Q
			sc.feed(Ev{"ev": "SendPart", "c": st.C, "q": st.Q, "cut": cut}, f[:cut], 0, false)
			return true
		}
		// a whole frame, delivered in 1..3 pieces without waiting for the server
		cuts := []int{}
		for i, n := 0, s.rng.Intn(3); i < n; i++ {
			cuts = append(cuts, 1+s.rng.Intn(len(f)-1))
		}
		sort.Ints(cuts)
		cuts = append(cuts, len(f))
		e := Ev{"ev": "Send", "c": st.C, "q": st.Q, "pieces": len(cuts)}
		prev := 0
		for i, cut := range cuts {
			if cut == prev && i < len(cuts)-1 {
				continue
			}
			sc.feed(e, f[prev:cut], st.Q, i == len(cuts)-1)
			e, prev = nil, cut
			if i < len(cuts)-1 {
				runtime.Gosched()
			}
		}
		return true
	case "SendRest":
		if sc == nil || sc.part == nil || sc.cliEOF {
			s.fail("SendRest impossible")
			return true
		}
		rest, q := sc.part, sc.partQ
		sc.part = nil
		sc.feed(Ev{"ev": "SendRest", "c": st.C, "q": q}, rest, q, true)
		return true
	case "Garbage":
		if sc == nil || sc.cliEOF || sc.part != nil {
			s.fail("Garbage impossible")
			return true
		}
		var b []byte
		kind := ""
		switch s.rng.Intn(3) {
		case 0: // announced length below a DNS header
			n := s.rng.Intn(13)
			b = make([]byte, 2+n)
			binary.BigEndian.PutUint16(b, uint16(n))
			kind = fmt.Sprintf("short-length-%d", n)
		default:
			b = frame(s.garbageMsg())
			kind = "unparsable-body"
		}
		sc.feed(Ev{"ev": "Garbage", "c": st.C, "kind": kind}, b, 0, true)
		return true
	case "HalfClose":
		if sc == nil || sc.cliEOF {
			s.fail("HalfClose impossible")
			return true
		}
		sc.cliEOF = true
		sc.halfClose()
		return true
	case "Stall", "Unstall":
		if sc == nil {
			s.fail(st.A + " impossible")
			return true
		}
		sc.setStall(st.A == "Stall")
		return true
	case "PartialWrite":
		s.fail("diverged: schedule of a server with write deadlines")
		return true
	case "TimerFire":
		if sc == nil {
			s.fail("TimerFire impossible")
			return true
		}
		if s.steered && !s.beh.NoWait {
			// let the server reach its blocking read first, so that the expiry is not absorbed by a re-arm that the
			// generated schedule did not foresee (that race is left to the no-wait runs)
			s.rec.wait(500*time.Millisecond, func() bool { return sc.blocked.Load() || sc.closed.Load() })
		}
		sc.fire(s.steered && !s.beh.NoWait)
		return true
	case "ReadQuery":
		if sc == nil {
			return true
		}
		end := int64(-1)
		for _, u := range sc.units {
			if u.q == st.Q {
				end = u.end
			}
		}
		if end < 0 {
			s.fail("diverged: query was not sent")
			return true
		}
		return s.waitOn(st.C, fmt.Sprintf("ReadQuery(%d)", st.Q), func() bool { return sc.consumed.Load() >= end })
	case "Invoke":
		return s.waitOn(st.C, fmt.Sprintf("Invoke(%d)", st.Q), func() bool { return s.rec.invoked[st.Q] })
	case "Release":
		return s.release(st.Q, st.K)
	case "Write", "WriteFail":
		s.h.mu.Lock()
		cl := s.h.call[st.Q]
		s.h.mu.Unlock()
		if cl == nil || !cl.released {
			s.fail("diverged: handler not released")
			return true
		}
		return s.waitOn(0, fmt.Sprintf("%s(%d)", st.A, st.Q), func() bool { return s.rec.done[st.Q] })
	case "Close":
		if sc == nil {
			s.fail("diverged: no such connection")
			return true
		}
		return s.waitOn(0, fmt.Sprintf("Close(%d)", st.C), func() bool { return s.rec.closed[st.C] })
	case "ListenerClose":
		if s.lnClosed {
			return true
		}
		s.lnClosed = true
		s.rec.log(Ev{"ev": "ListenerClose"})
		s.ln.Close()
		return true
	case "ServeReturn":
		return s.waitOn(0, "ServeReturn", func() bool { return s.rec.returned })
	}
	s.fail("unknown step " + st.A)
	return true
}

// running handlers: report a context that has ended; where the connection is gone wait for it
func (s *script) observeContexts() bool {
	s.h.mu.Lock()
	type rc struct {
		q  int
		cl *call
	}
	var run []rc
	for q, cl := range s.h.call {
		if !cl.released {
			run = append(run, rc{q, cl})
		}
	}
	s.h.mu.Unlock()
	for _, x := range run {
		s.h.mu.Lock()
		c := s.h.conn[s.h.addr[x.q]]
		s.h.mu.Unlock()
		gone := s.rec.wait(0, func() bool { return s.rec.returned }) || (!s.udp && s.connClosed(c))
		if gone {
			select {
			case <-x.cl.ctx.Done():
				s.rec.log(Ev{"ev": "CtxDone", "q": x.q})
			case <-time.After(waitBound):
				s.rec.log(Ev{"ev": "CtxAlive", "q": x.q})
				s.fail("handler context not cancelled")
				return false
			}
		} else if x.cl.ctx.Err() != nil {
			s.rec.log(Ev{"ev": "CtxDone", "q": x.q})
		}
	}
	return true
}

func (s *script) releaseAll() {
	s.h.mu.Lock()
	s.h.auto = true
	var qs []int
	for q, cl := range s.h.call {
		if !cl.released {
			qs = append(qs, q)
		}
	}
	s.h.mu.Unlock()
	sort.Ints(qs)
	for _, q := range qs {
		s.release(q, "reply")
	}
}

func (s *script) windDownTCP() {
	quiet := !s.steered && strings.HasPrefix(s.why, "no reaction")
	if !quiet {
		quiet = !s.observeContexts()
	}
	// a connection on which a reply frame was written only in part must be closed by the server (nothing else can
	// follow a truncated frame); check it before the wind-down closes the connection from the client side
	if !quiet {
		var tr []int
		for _, e := range s.rec.snapshot() {
			if e["ev"] == "PartialWrite" {
				tr = append(tr, e["c"].(int))
			}
			// likewise a handler that returned nil: the server's reaction (closing) is awaited before the wind-down
			// closes the connection itself; whether it was due is decided by the spec (Quiet)
			if e["ev"] == "Release" && e["k"] == "nil" {
				s.h.mu.Lock()
				c := s.h.conn[s.h.addr[e["q"].(int)]]
				s.h.mu.Unlock()
				if c != 0 {
					tr = append(tr, c)
				}
			}
		}
		for _, c := range tr {
			if !s.rec.wait(waitBound, func() bool { return s.rec.closed[c] }) {
				s.rec.log(Ev{"ev": "Quiet", "waiting_for": fmt.Sprintf("Close(%d) after a partial write / nil reply", c)})
				s.fail("connection kept after a partial write / nil reply")
				quiet = true
				break
			}
		}
	}
	var cs []int
	for c := range s.conns {
		cs = append(cs, c)
	}
	sort.Ints(cs)
	for _, c := range cs {
		s.conns[c].setStall(false)
	}
	s.releaseAll()
	for _, c := range cs {
		if sc := s.conns[c]; !sc.cliEOF {
			sc.cliEOF = true
			sc.halfClose()
		}
	}
	if !s.lnClosed {
		s.lnClosed = true
		s.rec.log(Ev{"ev": "ListenerClose"})
		s.ln.Close()
	}
	// drain a connection that was offered but never accepted
	ok := s.rec.wait(waitBound, func() bool {
		if !s.rec.returned {
			return false
		}
		for c, sc := range s.conns {
			if s.rec.accepted[c] && !sc.closed.Load() {
				return false
			}
		}
		return true
	})
	if ok {
		// every query the server consumed completely reaches the handler; every released reply is written or fails
		ok = s.rec.wait(waitBound, func() bool {
			for _, sc := range s.conns {
				_, set := sc.consumedQueriesNoLock()
				for q := range set {
					if !s.rec.invoked[q] {
						return false
					}
				}
			}
			for q := range s.rec.invoked {
				if q != 0 && !s.rec.done[q] && !s.nilReleased(q) {
					return false
				}
			}
			return true
		})
	}
	if ok {
		// all handler contexts end
		s.h.mu.Lock()
		cls := map[int]*call{}
		for q, cl := range s.h.call {
			cls[q] = cl
		}
		s.h.mu.Unlock()
		dl := time.After(waitBound)
		for q, cl := range cls {
			select {
			case <-cl.ctx.Done():
			case <-dl:
				s.rec.log(Ev{"ev": "CtxAlive", "q": q})
				s.fail("handler context not cancelled")
				quiet = true
			}
		}
	}
	if !ok && !quiet {
		s.rec.log(Ev{"ev": "Quiet", "waiting_for": "wind-down"})
		s.fail("wind-down did not complete")
	}
	s.rec.log(Ev{"ev": "End", "leak": false})
}

// consumedQueriesNoLock: like consumedQueries but callable from wait predicates (rec.mu held, conn.mu must not be
// taken: lock order is conn.mu -> rec.mu).  units are only appended by the controller goroutine (the waiter).
func (c *sconn) consumedQueriesNoLock() (n int, set map[int]bool) {
	set = map[int]bool{}
	cons := c.consumed.Load()
	for _, u := range c.units {
		if u.q != 0 && u.end <= cons {
			n++
			set[u.q] = true
		}
	}
	return
}

func (s *script) nilReleased(q int) bool {
	// a nil reply produces neither Write nor WriteFail
	for _, e := range s.rec.evs {
		if e["ev"] == "Release" && e["q"] == q && e["k"] == "nil" {
			return true
		}
	}
	return false
}

// ---------------------------------------------------------------------------------------------
// udp

var loop2 atomic.Bool // 127.0.0.2 usable

func (s *script) runUDP() {
	wild := s.beh.Var%2 == 1
	laddr := &net.UDPAddr{IP: net.IPv4(127, 0, 0, 1)}
	s.cfg = "listen=127.0.0.1"
	if wild {
		laddr = &net.UDPAddr{IP: net.IPv4zero}
		s.cfg = "listen=0.0.0.0"
	}
	srv, err := net.ListenUDP("udp4", laddr)
	if err != nil {
		s.fail("listen: " + err.Error())
		return
	}
	s.srv = srv
	port := srv.LocalAddr().(*net.UDPAddr).Port
	s.dst = map[int]*net.UDPAddr{}
	s.qsock = map[int]int{}
	s.udpSent = map[int]bool{}
	s.rec.log(Ev{"ev": "Reset", "mode": "udp", "cfg": s.cfg, "idx": s.idx})
	for i := 0; i < 2; i++ {
		cli, err := net.ListenUDP("udp4", &net.UDPAddr{IP: net.IPv4(127, 0, 0, 1)})
		if err != nil {
			s.fail("client socket: " + err.Error())
			return
		}
		s.clis = append(s.clis, cli)
		ip := net.IPv4(127, 0, 0, 1)
		if wild && i == 1 && loop2.Load() {
			ip = net.IPv4(127, 0, 0, 2)
		}
		s.dst[i] = &net.UDPAddr{IP: ip, Port: port}
		go s.udpClientReader(i, cli)
	}
	a := netip.MustParseAddr("127.0.0.1")
	s.h.conn[a] = 1
	go func() {
		err := server.ServeUDP(srv, s.h, server.UDPServerOpts{})
		s.rec.log(Ev{"ev": "ServeReturn", "err": err != nil})
	}()
	for _, st := range s.beh.Steps {
		if !s.stepUDP(st) {
			break
		}
	}
	s.windDownUDP()
	for _, c := range s.clis {
		c.Close()
	}
}

func (s *script) udpClientReader(i int, cli *net.UDPConn) {
	buf := make([]byte, 65536)
	for {
		n, from, err := cli.ReadFromUDP(buf)
		if err != nil {
			return
		}
		b := append([]byte(nil), buf[:n]...)
		m := new(dns.Msg)
		if m.Unpack(b) != nil {
			s.rec.log(Ev{"ev": "BadWrite", "c": 1, "n": n})
			continue
		}
		s.h.mu.Lock()
		q := s.h.byID[m.Id]
		exp := s.h.exp[q]
		sock, sent := s.qsock[q]
		dst := s.dst[i]
		s.h.mu.Unlock()
		ok := sent && sock == i && bytes.Equal(b, exp) && from.IP.Equal(dst.IP) && from.Port == dst.Port
		e := Ev{"ev": "Write", "q": q, "c": 1, "ok": ok, "n": n}
		if !ok {
			e["why"] = fmt.Sprintf("arrived on client socket %d from %v (query sent from socket %d to %v), payload equal=%v", i, from, sock, dst, bytes.Equal(b, exp))
		}
		s.rec.log(e)
	}
}

func (s *script) stepUDP(st Step) bool {
	switch st.A {
	case "Send":
		i := s.rng.Intn(2)
		w := s.newQuery(st.Q, 1, netip.MustParseAddr("127.0.0.1"))
		s.h.mu.Lock()
		s.qsock[st.Q] = i
		s.h.mu.Unlock()
		s.udpSent[st.Q] = true
		s.rec.log(Ev{"ev": "Send", "c": 1, "q": st.Q, "sock": i})
		s.clis[i].WriteToUDP(w, s.dst[i])
		return true
	case "Garbage":
		i := s.rng.Intn(2)
		var b []byte
		if s.rng.Intn(2) == 0 {
			b = make([]byte, 1+s.rng.Intn(11)) // shorter than a DNS header
			s.rng.Read(b)
		} else {
			b = s.garbageMsg()
		}
		s.rec.log(Ev{"ev": "Garbage", "c": 1, "n": len(b)})
		s.clis[i].WriteToUDP(b, s.dst[i])
		return true
	case "ReadQuery", "Invoke":
		// consumption of a datagram is not observable: the nearest observation is the handler invocation
		if s.lnClosed {
			return true
		}
		return s.waitOn(0, fmt.Sprintf("Invoke(%d)", st.Q), func() bool { return s.rec.invoked[st.Q] })
	case "Release":
		return s.release(st.Q, st.K)
	case "Write":
		if s.lnClosed {
			return true
		}
		return s.waitOn(0, fmt.Sprintf("Write(%d)", st.Q), func() bool { return s.rec.done[st.Q] })
	case "WriteFail":
		return true
	case "ListenerClose":
		if !s.lnClosed {
			s.lnClosed = true
			s.rec.log(Ev{"ev": "ListenerClose"})
			s.srv.Close()
		}
		return true
	case "ServeReturn":
		return s.waitOn(0, "ServeReturn", func() bool { return s.rec.returned })
	}
	s.fail("unknown step " + st.A)
	return true
}

func (s *script) windDownUDP() {
	quiet := !s.steered && strings.HasPrefix(s.why, "no reaction")
	if !quiet {
		quiet = !s.observeContexts()
	}
	s.releaseAll()
	ok := true
	if !s.lnClosed && !quiet {
		// the socket is open: every valid datagram reaches the handler, every released reply arrives
		ok = s.rec.wait(waitBound, func() bool {
			for q := range s.udpSent {
				if !s.rec.invoked[q] {
					return false
				}
			}
			for q := range s.rec.invoked {
				if q != 0 && !s.rec.done[q] && !s.nilReleased(q) {
					return false
				}
			}
			return true
		})
		if !ok {
			s.rec.log(Ev{"ev": "Quiet", "waiting_for": "udp wind-down (socket open)"})
			s.fail("udp wind-down did not complete")
			quiet = true
		}
	}
	if !s.lnClosed {
		s.lnClosed = true
		s.rec.log(Ev{"ev": "ListenerClose"})
		s.srv.Close()
	}
	if !s.rec.wait(waitBound, func() bool { return s.rec.returned }) && !quiet {
		s.rec.log(Ev{"ev": "Quiet", "waiting_for": "ServeReturn"})
		s.fail("ServeUDP did not return")
	}
	// The socket is closed now (Close returns only after in-flight writes finished), so every reply the server managed
	// to send sits in a client socket's queue: give the client readers a bounded time to observe them.  Replies whose
	// write failed never arrive, hence the bound; an observation later than End stays legal in the trace spec.
	s.rec.wait(300*time.Millisecond, func() bool {
		for _, e := range s.rec.evs {
			if e["ev"] == "Release" && e["k"] == "reply" && !s.rec.done[e["q"].(int)] {
				return false
			}
		}
		return true
	})
	s.rec.log(Ev{"ev": "End", "leak": false})
}

// ---------------------------------------------------------------------------------------------

func runScript(kind string, idx int, b Beh, seed int64) Out {
	t0 := time.Now()
	s := &script{idx: idx, udp: kind == "udp", beh: &b, rng: rand.New(rand.NewSource(seed)), rng2: &lockedRand{r: rand.New(rand.NewSource(seed ^ 0x5eed))}, rec: newRec(), steered: true}
	s.h = &gateHandler{rec: s.rec, udp: s.udp, byID: map[uint16]int{}, sent: map[int]*dns.Msg{}, addr: map[int]netip.Addr{},
		conn: map[netip.Addr]int{}, call: map[int]*call{}, exp: map[int][]byte{}, rng: s.rng}
	if s.udp {
		s.runUDP()
	} else {
		s.runTCP()
	}
	evs := s.rec.stop()
	// anything still blocked must be let go
	s.h.mu.Lock()
	s.h.auto = true
	for _, cl := range s.h.call {
		if !cl.released {
			cl.released = true
			cl.gate <- decision{}
		}
	}
	s.h.mu.Unlock()
	return Out{Kind: kind, Idx: idx, Beh: &b, Steered: s.steered && !b.NoWait, Why: s.why, Cfg: s.cfg, Events: evs, Ms: time.Since(t0).Milliseconds()}
}

func serverGoroutines() (int, string) {
	buf := make([]byte, 8<<20)
	n := runtime.Stack(buf, true)
	cnt, sample := 0, ""
	for _, g := range strings.Split(string(buf[:n]), "\n\n") {
		if strings.Contains(g, "mosdns/v5/pkg/server.") {
			cnt++
			if sample == "" {
				sample = g
			}
		}
	}
	return cnt, sample
}

func main() {
	var job Job
	if err := vh.ReadJob(&job); err != nil {
		fmt.Fprintln(os.Stderr, "bad job:", err)
		os.Exit(2)
	}
	if job.WaitMs > 0 {
		waitBound = time.Duration(job.WaitMs) * time.Millisecond
	}
	if job.Workers <= 0 {
		job.Workers = 8
	}
	// sanity of the concretization: the garbage bodies really are unparsable, 127.0.0.2 is reachable
	probe := &script{rng: rand.New(rand.NewSource(1))}
	for i := 0; i < 30; i++ {
		if new(dns.Msg).Unpack(probe.garbageMsg()) == nil {
			fmt.Fprintln(os.Stderr, "garbage message parses")
			os.Exit(2)
		}
	}
	if l, err := net.ListenUDP("udp4", &net.UDPAddr{IP: net.IPv4(127, 0, 0, 2)}); err == nil {
		loop2.Store(true)
		l.Close()
	}

	type item struct {
		kind string
		idx  int
		b    Beh
	}
	var items []item
	for i, b := range job.Tcp {
		items = append(items, item{"tcp", i, b})
	}
	for i, b := range job.Udp {
		items = append(items, item{"udp", i, b})
	}
	ch := make(chan item)
	var wg sync.WaitGroup
	seed := vh.Seed()
	for w := 0; w < job.Workers; w++ {
		wg.Add(1)
		go func() {
			defer wg.Done()
			for it := range ch {
				k := int64(0)
				if it.kind == "udp" {
					k = 1
				}
				vh.Emit(runScript(it.kind, it.idx, it.b, seed*1000003+int64(it.idx)*2+k))
			}
		}()
	}
	for _, it := range items {
		ch <- it
	}
	close(ch)
	wg.Wait()

	// no goroutine of pkg/server survives once every listener, socket and connection has ended
	deadline := time.Now().Add(waitBound)
	cnt, sample := serverGoroutines()
	for cnt > 0 && time.Now().Before(deadline) {
		time.Sleep(20 * time.Millisecond)
		cnt, sample = serverGoroutines()
	}
	vh.Emit(Out{Kind: "leak", Steered: true, Events: []Ev{{"ev": "Reset", "mode": "tcp"}, {"ev": "End", "leak": cnt > 0, "goroutines": cnt}}, Diag: sample})
	vh.Flush()
}
