//go:build verif

// drv_dualsel: replays TLC-generated schedules of DualSelector.tla into the real dual_selector
// plugin (prefer_ipv4 / prefer_ipv6) and records every run as a trace for DualSelector_Trace.tla.
// No hooks: the rest of the chain is a harness executable whose Exec is a gate.
package main

import (
	"context"
	"errors"
	"fmt"
	"math/rand"
	"net"
	"os"
	"sync"
	"time"

	"github.com/IrineSistiana/mosdns/v5/coremain"
	"github.com/IrineSistiana/mosdns/v5/pkg/query_context"
	"github.com/IrineSistiana/mosdns/v5/plugin/executable/dual_selector"
	"github.com/IrineSistiana/mosdns/v5/plugin/executable/sequence"
	"github.com/miekg/dns"
	"go.uber.org/zap"

	"verif/harness/vh"
)

const refWait = 500 * time.Millisecond // referenceWaitTimeout in dual_selector.go

type Step struct {
	A string `json:"a"`
	K string `json:"k,omitempty"`
	O string `json:"o,omitempty"`
}

type Behaviour struct {
	TimerMay bool   `json:"timerMay"`
	Steps    []Step `json:"steps"`
}

type Job struct {
	Behaviours []Behaviour `json:"behaviours"`
	Random     int         `json:"random"`
	Workers    int         `json:"workers"`
}

type Event map[string]any

type Result struct {
	Idx     int     `json:"idx"`
	Kind    string  `json:"kind"`
	Steered bool    `json:"steered"`
	Why     string  `json:"why,omitempty"`
	Hang    bool    `json:"hang"`
	Events  []Event `json:"events"`
	Beh     any     `json:"beh,omitempty"`
}

type arrival struct{ role string }

// one selector instance + the harness "rest of the chain"
type session struct {
	mu       sync.Mutex
	events   []Event
	prefer   uint16
	sel      *dual_selector.Selector
	curKind  string
	orgRel   time.Time // when the original query of the current call was released
	ncalls   int
	arrived  chan arrival
	release  map[string]chan string
	parked   map[string]bool
	timerMay bool
}

func (s *session) log(ev string, kv ...any) {
	s.mu.Lock()
	e := Event{"ev": ev}
	for i := 0; i+1 < len(kv); i += 2 {
		e[kv[i].(string)] = kv[i+1]
	}
	if ev == "RefFinish" || ev == "Return" {
		e["early"] = s.orgRel.IsZero() || time.Since(s.orgRel) < refWait/2
	}
	s.events = append(s.events, e)
	s.mu.Unlock()
}

type nextExec struct{ s *session }

func (n *nextExec) Exec(ctx context.Context, qCtx *query_context.Context) error {
	s := n.s
	qt := qCtx.Q().Question[0].Qtype
	role := "direct"
	s.mu.Lock()
	if s.curKind == "nonpref" {
		if qt == s.prefer {
			role = "ref"
		} else {
			role = "org"
		}
	}
	s.ncalls++
	s.parked[role] = true
	s.mu.Unlock()
	s.arrived <- arrival{role}
	o := <-s.release[role]
	q := qCtx.Q()
	switch o {
	case "has", "ans":
		r := new(dns.Msg)
		r.SetReply(q)
		h := dns.RR_Header{Name: q.Question[0].Name, Rrtype: qt, Class: dns.ClassINET, Ttl: 60}
		ip := net.IPv4(10, 0, 0, 1)
		if role == "org" {
			ip = net.IPv4(10, 0, 0, 2)
		}
		if role == "direct" {
			ip = net.IPv4(10, 0, 0, 3)
		}
		switch qt {
		case dns.TypeA:
			r.Answer = append(r.Answer, &dns.A{Hdr: h, A: ip})
		case dns.TypeAAAA:
			r.Answer = append(r.Answer, &dns.AAAA{Hdr: h, AAAA: ip.To16()})
		default:
			h.Rrtype = dns.TypeTXT
			r.Answer = append(r.Answer, &dns.TXT{Hdr: h, Txt: []string{"direct"}})
		}
		qCtx.SetResponse(r)
		return nil
	case "hasnot":
		r := new(dns.Msg)
		r.SetReply(q)
		r.Ns = append(r.Ns, &dns.TXT{Hdr: dns.RR_Header{Name: q.Question[0].Name, Rrtype: dns.TypeTXT, Class: dns.ClassINET, Ttl: 60}, Txt: []string{role}})
		qCtx.SetResponse(r)
		return nil
	case "none":
		return nil
	default:
		return errors.New("harness: scripted error (" + role + ")")
	}
}

func newSession(prefer uint16, timerMay bool) *session {
	s := &session{prefer: prefer, timerMay: timerMay, arrived: make(chan arrival, 16),
		release: map[string]chan string{"ref": make(chan string, 1), "org": make(chan string, 1), "direct": make(chan string, 1)},
		parked:  map[string]bool{}}
	bq := sequence.NewBQ(coremain.NewTestMosdnsWithPlugins(nil), zap.NewNop())
	if prefer == dns.TypeA {
		s.sel = dual_selector.NewPreferIpv4(bq)
	} else {
		s.sel = dual_selector.NewPreferIpv6(bq)
	}
	return s
}

type callState struct {
	retCh    chan Event
	returned bool
	cancel   context.CancelFunc
}

func (s *session) waitArrive(role string, cs *callState, d time.Duration) bool {
	s.mu.Lock()
	p := s.parked[role]
	s.mu.Unlock()
	if p {
		return true
	}
	t := time.NewTimer(d)
	defer t.Stop()
	for {
		select {
		case <-s.arrived:
			s.mu.Lock()
			p := s.parked[role]
			s.mu.Unlock()
			if p {
				return true
			}
		case e := <-cs.retCh:
			s.noteReturn(cs, e)
		case <-t.C:
			return false
		}
	}
}

func (s *session) noteReturn(cs *callState, e Event) {
	if !cs.returned {
		cs.returned = true
		kv := []any{}
		for k, v := range e {
			kv = append(kv, k, v)
		}
		s.log("Return", kv...)
	}
}

func (s *session) rel(role, o string) {
	s.mu.Lock()
	s.parked[role] = false
	if role == "org" {
		s.orgRel = time.Now()
	}
	s.mu.Unlock()
	switch role {
	case "ref":
		s.log("RefFinish", "o", o)
	case "org":
		s.log("OrgFinish", "o", o)
	default:
		s.log("DirectFinish", "o", o)
	}
	s.release[role] <- o
}

func (s *session) startCall(kind string, idx int) *callState {
	var qt uint16
	other := dns.TypeAAAA
	if s.prefer == dns.TypeAAAA {
		other = dns.TypeA
	}
	switch kind {
	case "pref":
		qt = s.prefer
	case "nonpref":
		qt = uint16(other)
	default:
		qt = dns.TypeMX
	}
	q := new(dns.Msg)
	q.SetQuestion(fmt.Sprintf("n%d.test.", idx), qt)
	q.Id = uint16(idx*7 + 3)
	qCtx := query_context.NewContext(q)
	s.mu.Lock()
	s.curKind = kind
	s.ncalls = 0
	s.orgRel = time.Time{}
	s.mu.Unlock()
	s.log("Call", "k", kind)
	ctx, cancel := context.WithCancel(context.Background())
	cs := &callState{retCh: make(chan Event, 1), cancel: cancel}
	cw := sequence.NewChainWalker([]*sequence.ChainNode{{E: &nextExec{s}}}, nil)
	wantName, wantId := q.Question[0].Name, q.Id
	go func() {
		err := s.sel.Exec(ctx, qCtx, cw)
		e := Event{}
		s.mu.Lock()
		e["ncalls"] = s.ncalls
		s.mu.Unlock()
		qq := qCtx.Q()
		e["qok"] = qq != nil && len(qq.Question) == 1 && qq.Question[0].Name == wantName && qq.Question[0].Qtype == qt && qq.Id == wantId
		r := qCtx.R()
		switch {
		case err != nil && ctx.Err() != nil && errors.Is(err, context.Cause(ctx)):
			e["res"] = "ctx"
		case kind != "nonpref":
			e["res"] = "direct"
			e["o"] = classify(err, r, "direct")
		default:
			c := classify(err, r, "org")
			if c == "blocked" {
				e["res"] = "blocked"
			} else {
				e["res"] = "orig"
				e["o"] = c
			}
		}
		if r != nil && err == nil {
			if r.Id != wantId || len(r.Question) != 1 || r.Question[0].Name != wantName || r.Question[0].Qtype != qt {
				e["qok"] = false
			}
		}
		cs.retCh <- e
	}()
	return cs
}

func classify(err error, r *dns.Msg, role string) string {
	if err != nil {
		return "err"
	}
	if r == nil {
		return "none"
	}
	if len(r.Answer) == 0 {
		if len(r.Ns) == 1 {
			if t, ok := r.Ns[0].(*dns.TXT); ok && len(t.Txt) == 1 { // the harness' "no record" reply
				if role == "direct" && t.Txt[0] == "direct" {
					return "hasnot"
				}
				return "foreign-hasnot"
			}
		}
		return "blocked" // dnsutils.GenEmptyReply (fake SOA in the authority section)
	}
	var ip net.IP
	switch rr := r.Answer[0].(type) {
	case *dns.A:
		ip = rr.A
	case *dns.AAAA:
		ip = rr.AAAA
	case *dns.TXT:
		return "has"
	}
	want := net.IPv4(10, 0, 0, 2)
	if role == "direct" {
		want = net.IPv4(10, 0, 0, 3)
	}
	if ip.Equal(want) {
		if role == "direct" {
			return "has"
		}
		return "ans"
	}
	return "foreign-answer"
}

// finishCall: release whatever is still parked, wait for return and for the goroutines to end
func (s *session) finishCall(cs *callState, res *Result, rng *rand.Rand) {
	deadline := time.Now().Add(4 * time.Second)
	for time.Now().Before(deadline) {
		s.mu.Lock()
		var roles []string
		for r, p := range s.parked {
			if p {
				roles = append(roles, r)
			}
		}
		s.mu.Unlock()
		for _, r := range roles {
			o := "err"
			if rng != nil {
				o = []string{"has", "hasnot", "none", "err"}[rng.Intn(4)]
				if r == "org" {
					o = []string{"ans", "none", "err"}[rng.Intn(3)]
				}
			}
			s.rel(r, o)
		}
		if cs.returned && len(roles) == 0 {
			// make sure no goroutine is still on its way to the gate
			select {
			case <-s.arrived:
				continue
			case <-time.After(3 * time.Millisecond):
			}
			s.mu.Lock()
			any := false
			for _, p := range s.parked {
				any = any || p
			}
			s.mu.Unlock()
			if !any {
				return
			}
			continue
		}
		select {
		case <-s.arrived:
		case e := <-cs.retCh:
			s.noteReturn(cs, e)
		case <-time.After(2 * time.Millisecond):
		}
	}
	if !cs.returned {
		cs.cancel()
		select {
		case e := <-cs.retCh:
			s.noteReturn(cs, e)
		case <-time.After(2 * time.Second):
			res.Hang = true
		}
	}
}

func runOne(idx int, b *Behaviour, kind string, rng *rand.Rand) Result {
	prefer := dns.TypeA
	if idx%2 == 1 {
		prefer = dns.TypeAAAA
	}
	s := newSession(uint16(prefer), b.TimerMay)
	defer s.sel.Close()
	res := Result{Idx: idx, Kind: kind, Steered: true}
	s.log("NewSel", "timerMay", true)
	const stepWait = 500 * time.Millisecond
	var cs *callState
	diverge := func(why string) {
		if res.Steered {
			res.Steered = false
			res.Why = why
		}
	}
	if kind == "random" {
		n := 1 + rng.Intn(3)
		for c := 0; c < n; c++ {
			k := []string{"pref", "nonpref", "nonpref", "other"}[rng.Intn(4)]
			cs = s.startCall(k, idx)
			if rng.Intn(8) == 0 {
				time.Sleep(time.Duration(rng.Intn(2)) * time.Millisecond)
				s.log("Cancel")
				cs.cancel()
			}
			if b.TimerMay && k == "nonpref" && rng.Intn(2) == 0 {
				// release the original first and keep the reference beyond the 500 ms wait
				if s.waitArrive("org", cs, stepWait) {
					s.rel("org", []string{"ans", "none", "err"}[rng.Intn(3)])
					time.Sleep(refWait + 40*time.Millisecond)
				}
			}
			s.finishCall(cs, &res, rng)
			cs.cancel()
		}
	} else {
	steps:
		for _, st := range b.Steps {
			switch st.A {
			case "Call":
				if cs != nil {
					s.finishCall(cs, &res, nil)
					cs.cancel()
				}
				cs = s.startCall(st.K, idx)
			case "DirectFinish", "RefFinish", "OrgFinish":
				role := map[string]string{"DirectFinish": "direct", "RefFinish": "ref", "OrgFinish": "org"}[st.A]
				if cs == nil || !s.waitArrive(role, cs, stepWait) {
					diverge("rest of the chain not invoked for role " + role)
					break steps
				}
				s.rel(role, st.O)
				// let the effect settle (the goroutine closes its channel / the caller's select runs)
				time.Sleep(time.Millisecond)
			case "TimerFire":
				s.mu.Lock()
				d := refWait + 40*time.Millisecond - time.Since(s.orgRel)
				s.mu.Unlock()
				if d > 0 {
					time.Sleep(d)
				}
			case "Cancel":
				if cs != nil {
					s.log("Cancel")
					cs.cancel()
					time.Sleep(time.Millisecond)
				}
			}
			if cs != nil {
				select {
				case e := <-cs.retCh:
					s.noteReturn(cs, e)
				default:
				}
			}
		}
		if cs != nil {
			s.finishCall(cs, &res, nil)
			cs.cancel()
		}
	}
	s.mu.Lock()
	res.Events = append([]Event(nil), s.events...)
	s.mu.Unlock()
	return res
}

func main() {
	var job Job
	if err := vh.ReadJob(&job); err != nil {
		fmt.Fprintln(os.Stderr, "job:", err)
		os.Exit(3)
	}
	if job.Workers == 0 {
		job.Workers = 16
	}
	type item struct {
		idx  int
		b    *Behaviour
		kind string
	}
	var items []item
	for i := range job.Behaviours {
		items = append(items, item{i, &job.Behaviours[i], "replay"})
	}
	rng := rand.New(rand.NewSource(vh.Seed()))
	for i := 0; i < job.Random; i++ {
		items = append(items, item{len(job.Behaviours) + i, &Behaviour{TimerMay: rng.Intn(3) == 0}, "random"})
	}
	ch := make(chan item)
	var wg sync.WaitGroup
	for w := 0; w < job.Workers; w++ {
		wg.Add(1)
		wrng := rand.New(rand.NewSource(vh.Seed()*977 + int64(w)))
		go func() {
			defer wg.Done()
			for it := range ch {
				r := runOne(it.idx, it.b, it.kind, wrng)
				if it.kind == "replay" {
					r.Beh = it.b
				}
				vh.Emit(r)
			}
		}()
	}
	for _, it := range items {
		ch <- it
	}
	close(ch)
	wg.Wait()
	vh.Flush()
}
