#!/usr/bin/env python3
"""Print the prompt for an independent 'attacker' sub-agent for property <id> (property text only)."""
import json, sys
pid = sys.argv[1]
n = int(sys.argv[2]) if len(sys.argv) > 2 else 3
p = [json.loads(l) for l in open('/verif/properties.jsonl') if json.loads(l)['id'] == pid][0]
wt = "/tmp/atk_%s" % pid.lower()
print(f"""You are testing how robust a project's quality gates are. You have a scratch git worktree of the Go project IrineSistiana/mosdns (a plugin-based DNS forwarder) at {wt} — work ONLY inside that directory (never touch /repo or /verif, and do not read anything under /verif). Go env for every shell: `export GOFLAGS=-mod=mod GOPROXY=off GOSUMDB=off GOTOOLCHAIN=local` (offline sandbox; the machine is heavily loaded, so make timing-based demonstrations generous).

Here is a semantic property the system is supposed to satisfy:

"{pid} — {p['title']}. {p['statement']}"
(quantified over: {p['quantifier']['text']}; anchored in: {', '.join(p['anchors']['files'])})

Task: produce {n} different, independent, realistic code changes (each a separate patch against the worktree's HEAD) to the mosdns source that each BREAK this property while (a) still compiling (`go build ./...` and `go build -tags verif ./...`), and (b) still passing the existing test suite (`go test -vet=off -count=1 ./...`; the only tolerated pre-existing flake is pkg/upstream Test_fastUpstream udp timeouts). Each change should look like something a developer could plausibly write (a refactor gone subtly wrong, an "optimization", a misplaced line, a wrong condition, an off-by-one) and should need something SPECIFIC to manifest — a particular interleaving, a fault or cancellation at a particular point, a multi-step sequence of operations, an unusual input/boundary value, or two cooperating sites that each look fine alone — NOT something any ordinary use would expose at once. Spread the changes over different mechanisms/files behind the property. Do not remove or rename existing `verifpoint.At(...)` lines or files guarded by `//go:build verif` (no-op instrumentation); you may move such a line along with the statement it follows.

For each change provide a demonstration: a Go test file placed in the relevant package (may use unexported identifiers) or a small program, that FAILS with the change applied and PASSES on the unmodified HEAD, reliably (>= 9 of 10 runs each way).

Deliver in {wt}/out/<n>/ for n = 1..{n}: `patch.diff` (git diff of the source change only, not the test), the demonstration file(s), and `meta.json` {{"property":"{pid}","summary":..., "needs":"what is required for it to manifest", "ran":"commands you ran and their outcome"}}. Verify everything yourself: apply patch -> build (both tag settings) -> existing tests pass -> demo fails; revert -> demo passes. Put a `go.mod` (module atkout) into {wt}/out so `go test ./...` ignores it. Leave the worktree's tracked files unmodified at the end (git checkout -- .). Final message: a short table of the changes and your verification results. Be economical: do not paste large files into your context.""")
