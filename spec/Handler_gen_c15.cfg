\* leg B generator (C15): random behaviours over the EDNS-relevant kinds, all option sets
SPECIFICATION Spec
CONSTANTS
  Kinds = {"cache", "ttl", "ecs", "fwdopt", "up"}
  MaxLen = 4
  Mals = {"ok"}
  CSizes = {0, 512, 1232, 4096, 65535}
  COptSets <- COptsAll
  CVers = {0, 1}
  WithNoOpt = TRUE
  UMsgs <- UMsgsB
  UOptSets <- UOptsAll
  Transports = {"udp", "tcp"}
  Caches = {"empty", "own"}
  Dev = {}
  WithHist = TRUE
INVARIANTS Emit
CHECK_DEADLOCK FALSE
