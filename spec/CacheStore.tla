---------------------------- MODULE CacheStore ----------------------------
(***************************************************************************)
(* C11 - the in-memory store behind the cache:                             *)
(*   pkg/cache/cache.go            Cache.Get / Store / Range / Len / Flush *)
(*                                 / gc (background sweep)                 *)
(*   pkg/concurrent_map/map.go     Map.Get / Set / Del / Len / Flush /     *)
(*                                 RangeDo  (64 shards, one RWMutex each)  *)
(*   pkg/concurrent_lru, pkg/lru   ShardedLRU.Get / Add / Del / Len /      *)
(*                                 Flush / Clean (extra coverage)          *)
(*                                                                         *)
(* The specification is the CONTRACT of property C11, not the sharding:    *)
(* a sequential object m : Key -> entry, a capacity `cap`, and for every   *)
(* real call of thread t                                                   *)
(*     Call(t, op, args)  ...  internal step(s)  ...  Ret(t)               *)
(* One internal action per critical section of the code:                   *)
(*   LinGet    shard.get under RLock (+ expiry test in Cache.Get)          *)
(*   LinStore  expiry test in Cache.Store + shard.set under Lock; may      *)
(*             evict ARBITRARY other entries (which shard is full is not   *)
(*             part of the contract) but keeps |m| <= cap                  *)
(*   LinDel    shard.del under Lock                                        *)
(*   LinLen    Map.Len (sum of shard.len; only the bound is contractual)   *)
(*   FlushStep shard.flush, one critical section per shard: the keys are   *)
(*             cleared in any order / grouping between Call and Ret        *)
(*   RangeStep shard.rangeDo, likewise key group by key group              *)
(* Background gc and the delete-on-expired-read of Cache.Get only remove   *)
(* entries; a lookup may always answer "nothing" (Exact = FALSE), so they  *)
(* need no action of their own.  Exact = TRUE is the sequential reading    *)
(* (leg B): nothing is lost below capacity, misses only for absent /       *)
(* expired keys, Len and Range complete.                                   *)
(*                                                                         *)
(* Time: every entry has an expiry class: "long" (never within a run),     *)
(* "short" (expires at the instant T of the run), "past" (already expired  *)
(* when stored).  Phases 0 = surely before T, 1 = unknown (the delta band, *)
(* nothing asserted), 2 = surely after T.  In the design `now` is a global *)
(* phase; in trace mode each operation carries its measured phase.         *)
(*                                                                         *)
(* Cap: "configured capacity with the documented minimum of 1024"          *)
(*   pkg/cache/cache.go  New: "The minimum size is 1024."                  *)
(*   plugin/executable/cache/cache.go QuickSetup: "default is 1024. If     *)
(*   size is < 1024, 1024 will be used."                                   *)
(***************************************************************************)
EXTENDS Integers, Sequences, FiniteSets, TLC, Json

CONSTANTS
    Threads,      \* thread ids
    Keys,         \* key ids (integers)
    MinCap,       \* the documented minimum (1024 in trace mode, tiny in leg A)
    Sizes,        \* configured sizes explored by Init (design)
    OpTypes,      \* operation types the design explores
    Exps,         \* expiry classes the design explores
    MaxOps,       \* design: total number of calls
    MaxPerThread, \* design: calls per thread
    Exact,        \* TRUE: sequential reading (no spurious miss, no eviction below cap)
    Dev,          \* deviation switch for non-vacuity: "none" | "noevict" | "stale" | "foreign" |
                  \* "expired" | "rangestale" | "lenover"
    TraceMode,    \* TRUE: phases come from the logged operation, not from `now`
    SkipBand,     \* design: Tick jumps from phase 0 to phase 2 (generator)
    WithHist      \* record hist (behaviour export)

VARIABLES
    cap,          \* effective capacity
    m,            \* Key -> [v, e]; v = 0 means absent
    op,           \* Thread -> pending operation record
    now,          \* design: global phase 0,1,2
    info,         \* history: value -> [k, e] of the Store call that introduced it
    retd,         \* history: values whose Store call has returned
    dead,         \* history: values overwritten / flushed / deleted by an operation that
                  \*          returned, and that was called after the value's Store returned
    cnt,          \* design: calls made per thread
    hist          \* behaviour export

vars == <<cap, m, op, now, info, retd, dead, cnt, hist>>

CapOf(size) == IF size <= 0 THEN MinCap ELSE IF size < MinCap THEN MinCap ELSE size

NoEnt == [v |-> 0, e |-> "none"]
Idle == [type |-> "idle", k |-> 0, v |-> 0, e |-> "none", ph |-> 0, done |-> FALSE, eff |-> FALSE,
         res |-> 0, acc |-> {}, todo |-> {}, cand |-> {}, dac |-> {}, want |-> 0, wantr |-> <<>>]

Dom == {k \in Keys : m[k].v # 0}
PhaseOf(t) == IF TraceMode THEN op[t].ph ELSE now
Used == DOMAIN info

Init ==
    /\ cap \in {CapOf(s) : s \in Sizes}
    /\ m = [k \in Keys |-> NoEnt]
    /\ op = [t \in Threads |-> Idle]
    /\ now = 0
    /\ info = <<>>
    /\ retd = {} /\ dead = {}
    /\ cnt = [t \in Threads |-> 0]
    /\ hist = <<>>

----------------------------------------------------------------------------
\* invocation
Call(t, ty, k, v, e, ph, w, wr) ==
    /\ op[t].type = "idle"
    /\ op' = [op EXCEPT ![t] = [Idle EXCEPT
                !.type = ty, !.k = k, !.v = v, !.e = e, !.ph = ph, !.want = w, !.wantr = wr,
                !.todo = IF ty \in {"flush", "range"} THEN Keys ELSE {},
                !.cand = CASE ty \in {"store", "del"} -> {x \in retd : info[x].k = k}
                           [] ty = "flush" -> retd
                           [] OTHER -> {},
                !.dac = dead]]
    /\ info' = IF ty = "store" THEN info @@ (v :> [k |-> k, e |-> e]) ELSE info
    /\ UNCHANGED <<cap, m, now, retd, dead>>

\* what a lookup of k may answer in phase p
GetResults(k, p) ==
    LET ent == m[k]
        live == ent.v # 0 /\ ent.e # "past" /\ (ent.e = "short" => (p < 2 \/ Dev = "expired"))
        must == Exact /\ ent.v # 0 /\ (ent.e = "long" \/ (ent.e = "short" /\ p = 0))
    IN  (IF live THEN {ent.v} ELSE {})
        \cup (IF must THEN {} ELSE {0})
        \cup (IF Dev = "stale" THEN {x \in Used : info[x].k = k /\ info[x].e = "long"} ELSE {})
        \cup (IF Dev = "foreign" THEN {x \in Used : info[x].e = "long"} ELSE {})

LinGet(t, r) ==
    /\ op[t].type = "get" /\ ~op[t].done
    /\ r \in GetResults(op[t].k, PhaseOf(t))
    /\ op' = [op EXCEPT ![t].done = TRUE, ![t].res = r]
    /\ UNCHANGED <<cap, m, now, info, retd, dead>>

\* is a Store with expiry class e in phase p effective?
StoreEff(e, p) ==
    CASE e = "long" -> {TRUE}
      [] e = "past" -> {FALSE}
      [] OTHER      -> IF p = 0 THEN {TRUE} ELSE IF p = 1 THEN {TRUE, FALSE} ELSE {FALSE}

LinStore(t, E, eff) ==
    LET k == op[t].k IN
    /\ op[t].type = "store" /\ ~op[t].done
    /\ eff \in StoreEff(op[t].e, PhaseOf(t))
    /\ IF eff
       THEN /\ E \subseteq Dom \ {k}
            /\ Dev = "noevict" => E = {}
            /\ Dev # "noevict" => Cardinality((Dom \ E) \cup {k}) <= cap
            /\ (Exact /\ Cardinality(Dom \cup {k}) <= cap) => E = {}
            /\ m' = [kk \in Keys |-> IF kk = k THEN [v |-> op[t].v, e |-> op[t].e]
                                     ELSE IF kk \in E THEN NoEnt ELSE m[kk]]
       ELSE E = {} /\ m' = m
    /\ op' = [op EXCEPT ![t].done = TRUE, ![t].eff = eff]
    /\ UNCHANGED <<cap, now, info, retd, dead>>

LinDel(t) ==
    /\ op[t].type = "del" /\ ~op[t].done
    /\ m' = [m EXCEPT ![op[t].k] = NoEnt]
    /\ op' = [op EXCEPT ![t].done = TRUE, ![t].eff = TRUE]
    /\ UNCHANGED <<cap, now, info, retd, dead>>

\* entries that are surely counted / surely reported in phase p
SureLive(p) == {k \in Dom : m[k].e = "long" \/ (m[k].e = "short" /\ p = 0)}

LinLen(t, n) ==
    /\ op[t].type = "len" /\ ~op[t].done
    /\ n \in (IF Exact THEN Cardinality(SureLive(PhaseOf(t)))..Cardinality(Dom)
               ELSE 0..(IF Dev = "lenover" THEN cap + 1 ELSE cap))
    /\ op' = [op EXCEPT ![t].done = TRUE, ![t].res = n]
    /\ UNCHANGED <<cap, m, now, info, retd, dead>>

\* Flush clears the group S of not yet visited keys
FlushStep(t, S) ==
    /\ op[t].type = "flush" /\ ~op[t].done
    /\ S # {} /\ S \subseteq op[t].todo
    /\ m' = [kk \in Keys |-> IF kk \in S THEN NoEnt ELSE m[kk]]
    /\ op' = [op EXCEPT ![t].todo = @ \ S, ![t].done = (op[t].todo \ S = {}), ![t].eff = TRUE]
    /\ UNCHANGED <<cap, now, info, retd, dead>>

\* Range visits the group S of not yet visited keys and reports the entries R of S
RangeStep(t, S, R) ==
    /\ op[t].type = "range" /\ ~op[t].done
    /\ S # {} /\ S \subseteq op[t].todo
    /\ R \subseteq S \cap Dom
    /\ Exact => (S \cap SureLive(PhaseOf(t))) \subseteq R
    /\ op' = [op EXCEPT ![t].todo = @ \ S, ![t].done = (op[t].todo \ S = {}),
                        ![t].acc = @ \cup {<<k, m[k].v>> : k \in R}
                                     \cup (IF Dev = "rangestale"
                                           THEN {<<info[x].k, x>> : x \in {y \in Used : info[y].k \in S}}
                                           ELSE {})]
    /\ UNCHANGED <<cap, m, now, info, retd, dead>>

Ret(t) ==
    /\ op[t].type # "idle" /\ op[t].done
    /\ retd' = IF op[t].type = "store" THEN retd \cup {op[t].v} ELSE retd
    /\ dead' = IF op[t].eff THEN dead \cup op[t].cand ELSE dead
    /\ hist' = IF WithHist
               THEN Append(hist, [op |-> op[t].type, k |-> op[t].k, v |-> op[t].v, e |-> op[t].e,
                                  ph |-> op[t].ph, res |-> op[t].res,
                                  rng |-> op[t].acc])
               ELSE hist
    /\ op' = [op EXCEPT ![t] = Idle]
    /\ UNCHANGED <<cap, m, now, info, cnt>>

Tick ==
    /\ "short" \in Exps
    /\ now < 2
    /\ SkipBand => \A t \in Threads : op[t].type = "idle"   \* generator: time passes between calls
    /\ now' = IF SkipBand THEN 2 ELSE now + 1
    /\ hist' = IF WithHist THEN Append(hist, [op |-> "tick", k |-> 0, v |-> 0, e |-> "none",
                                               ph |-> now', res |-> 0, rng |-> {}]) ELSE hist
    /\ UNCHANGED <<cap, m, op, info, retd, dead, cnt>>

----------------------------------------------------------------------------
\* design: all threads, all operations
Total == LET RECURSIVE S(_)
             S(T) == IF T = {} THEN 0 ELSE LET x == CHOOSE x \in T : TRUE IN cnt[x] + S(T \ {x})
         IN S(Threads)
MinKey == CHOOSE k \in Keys : \A j \in Keys : k <= j

DCall(t) ==
    /\ cnt[t] < MaxPerThread /\ Total < MaxOps
    /\ \E ty \in OpTypes :
         \E k \in (IF ty \in {"get", "store", "del"} THEN Keys ELSE {0}) :
           \E e \in (IF ty = "store" THEN Exps ELSE {"none"}) :
             Call(t, ty, k, IF ty = "store" THEN Cardinality(Used) + 1 ELSE 0, e, now, 0, <<>>)
    /\ cnt' = [cnt EXCEPT ![t] = @ + 1]
    /\ UNCHANGED hist

DInternal(t) ==
    /\ \/ op[t].type = "get" /\ \E r \in GetResults(op[t].k, PhaseOf(t)) : LinGet(t, r)
       \/ \E E \in SUBSET Dom : \E eff \in BOOLEAN : LinStore(t, E, eff)
       \/ LinDel(t)
       \/ \E n \in 0..(Cardinality(Keys) + 1) : LinLen(t, n)
       \/ \E k \in op[t].todo : FlushStep(t, {k})
       \/ \E k \in op[t].todo : \E R \in SUBSET {k} : RangeStep(t, {k}, R)
    /\ UNCHANGED <<cnt, hist>>

Next == (\E t \in Threads : DCall(t) \/ DInternal(t) \/ Ret(t)) \/ Tick

Spec == Init /\ [][Next]_vars

----------------------------------------------------------------------------
\* Property C11
TypeOK ==
    /\ \A k \in Keys : m[k].v \in Nat
    /\ \A t \in Threads : op[t].type \in {"idle", "get", "store", "del", "len", "flush", "range"}
    /\ now \in 0..2

\* the number of entries never exceeds the capacity
Bounded == Cardinality(Dom) <= cap

\* a lookup returns nothing or a value stored under exactly that key ...
NoForeignValue ==
    \A t \in Threads : (op[t].type = "get" /\ op[t].done /\ op[t].res # 0) =>
        (op[t].res \in Used /\ info[op[t].res].k = op[t].k)

\* ... that has not expired ...
NoExpiredValue ==
    \A t \in Threads : (op[t].type = "get" /\ op[t].done /\ op[t].res # 0 /\ op[t].res \in Used) =>
        /\ info[op[t].res].e # "past"
        /\ ~(info[op[t].res].e = "short" /\ op[t].ph = 2)

\* ... and was not overwritten or flushed (or deleted) before the lookup began
NoStaleAfterOverwriteOrFlush ==
    \A t \in Threads : (op[t].type = "get" /\ op[t].done /\ op[t].res # 0) =>
        op[t].res \notin op[t].dac

\* the same for every entry a Range (dump) reports
RangeSound ==
    \A t \in Threads : op[t].type = "range" =>
        \A p \in op[t].acc : /\ p[2] \in Used /\ info[p[2]].k = p[1]
                             /\ p[2] \notin op[t].dac

LenBounded == \A t \in Threads : (op[t].type = "len" /\ op[t].done) => op[t].res \in 0..cap

C11Inv == Bounded /\ NoForeignValue /\ NoExpiredValue /\ NoStaleAfterOverwriteOrFlush
          /\ RangeSound /\ LenBounded

----------------------------------------------------------------------------
\* behaviour export (leg B generator; one thread, Exact)
Terminal == Total = MaxOps /\ \A t \in Threads : op[t].type = "idle"
Emit == Terminal => PrintT(<<"BEH", ToJson([cap |-> cap, steps |-> hist])>>)

ViewNoHist == <<cap, m, op, now, info, retd, dead, cnt>>
ThreadSym == Permutations(Threads)
=============================================================================
