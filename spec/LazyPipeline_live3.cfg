\* leg A thorough: 3 calls, Close + one fault, liveness
SPECIFICATION FairSpec
CONSTANTS
  NCalls = 3
  MaxDials = 3
  QueueLimit = 2
  ConnCap = 2
  Policy = "code"
  MaxRetry = 2
  AttemptBound = 4
  Dev = {}
  NoWgWait = FALSE
  ExactScan = TRUE
  MaxFaults = 1
  Kinds = {"stale", "dead"}
  CancelCalls = {}
  EnvTClose = TRUE
  OrderedStart = TRUE
  Eager = FALSE
  WithHist = FALSE
VIEW ViewNoHist
INVARIANTS TypeOK FailOnlyWhen AttemptsBounded ErrOnFault ClosedRejects CloseClosesAll QueueBound CapBound NoSpuriousRefusal NoLeak
PROPERTIES CallsEnd Released
CHECK_DEADLOCK FALSE
