\* non-vacuity
SPECIFICATION Spec
CONSTANTS
  NCalls = 2
  MaxDials = 2
  Policy = "code"
  MaxRetry = 2
  AttemptBound = 4
  RandomSelect = FALSE
  LockInOnce = FALSE
  Dev = {"idle_kept"}
  MaxFaults = 0
  Kinds = {"eof"}
  OrderedStart = TRUE
  CancelCalls = {}
  EnvTClose = FALSE
  Coarse = TRUE
  Eager = FALSE
  WithHist = FALSE
VIEW ViewNoHist
INVARIANTS OneAtATime

CHECK_DEADLOCK FALSE
