---------------------------- MODULE ServerConn ----------------------------
(***************************************************************************)
(* Connection lifecycle of the server side: pkg/server/tcp.go (ServeTCP)   *)
(* and pkg/server/udp.go (ServeUDP).  Extra coverage attached to C16 / C03 *)
(* (never a property of its own).                                          *)
(*                                                                         *)
(* Mode "tcp": a listener, connections Conns, queries Ids.                 *)
(*   Accept(c)        tcp.go: l.Accept() returned c, `go func()` started   *)
(*   Arm(c, cls)      c.SetReadDeadline: first-read timeout before the     *)
(*                    first message, idle timeout before every later one   *)
(*   ReadQuery(c)     dnsutils.ReadMsgFromTCP returned a message (whole    *)
(*                    frame arrived, however chunked); `go func()` handler *)
(*   ReadBad(c)       ReadMsgFromTCP returned an error: deadline passed,   *)
(*                    EOF (also in the middle of a frame), announced       *)
(*                    length <= 12, unparsable body, connection closed     *)
(*   Invoke(q)        h.Handle(tcpConnCtx, req, meta, pool.PackTCPBuffer)  *)
(*   Release(q, k)    ENVIRONMENT: the handler returns a payload / nil     *)
(*                    (any order: handlers of one connection run           *)
(*                    concurrently)                                        *)
(*   Write(q)         c.Write of the payload: ONE write with the whole frame *)
(*   WriteFail(q)     the write failed: connection already closed          *)
(*   Abort(q)         r == nil: c.Close()                                  *)
(*   ReaderCancel(c) ReaderClose(c)  the deferred cancelConn / c.Close()   *)
(*                    of the connection goroutine (their order is not part *)
(*                    of the contract)                                     *)
(*   ListenerClose    ENVIRONMENT: the owner closes the listener           *)
(*   ServeReturn      Accept() failed: listenerCtx cancelled (every        *)
(*                    handler context ends), ServeTCP returns an error.    *)
(*                    Connections that are still open are NOT closed by    *)
(*                    ServeTCP: they end by EOF / timeout / garbage / nil. *)
(*   Stall(c) / Unstall(c)  ENVIRONMENT: the client stops / resumes        *)
(*                    reading; PartialWrite(q): a server that arms write   *)
(*                    deadlines returns from Write after a part of the     *)
(*                    frame - then nothing more may be written on that     *)
(*                    connection, it must be closed (TruncClose)           *)
(*   client (ENVIRONMENT): Send (whole frame), SendPart + SendRest (frame  *)
(*   delivered in two instalments with arbitrary events between), Garbage, *)
(*   HalfClose, TimerFire (the armed read deadline passes).                *)
(*                                                                         *)
(* Mode "udp" (one socket = connection 1, open from the start):            *)
(*   ReadQuery picks ANY pending datagram (no order promised), a malformed *)
(*   datagram is skipped (ReadBad keeps reading), a nil payload is dropped *)
(*   silently, there are no deadlines; ListenerClose = the owner closes    *)
(*   the socket, after which the read fails and ServeUDP returns (a        *)
(*   datagram already queued may still be read; a reply already sent may   *)
(*   still arrive).                                                        *)
(***************************************************************************)
EXTENDS Naturals, Sequences, FiniteSets, TLC, Json

CONSTANTS
    Conns, Ids, Mode, WithHist,
    GenLen,    \* generator: number of logged steps per exported behaviour
    WithWDL,   \* the server may arm write deadlines (PartialWrite possible); FALSE in the generator cfgs
    MaxG,      \* bound: garbage units a client sends per connection
    DEV        \* deviation switch for the non-vacuity runs; "none" = the design

VARIABLES
    lst,      \* "open" | "closed" | "returned"
    cst,      \* [Conns -> "unborn" | "open" | "closed"]   closed = the SERVER closed it
    cl,       \* [Conns -> "open" | "eof"]  client side of the connection
    pend,     \* [Conns -> Seq(token)]  complete units not yet consumed by the server
    part,     \* [Conns -> Ids \cup {0}]  a proper prefix of this query's frame has been delivered
    rpc,      \* [Conns -> "none" | "arm" | "read" | "exit" | "done"]  connection goroutine
    nread,    \* [Conns -> Nat] messages read so far
    dl,       \* [Conns -> "none" | "first" | "idle"]  class of the armed read deadline
    fired,    \* [Conns -> BOOLEAN]  the armed deadline has passed
    cctx,     \* [Conns -> BOOLEAN]  connection context cancelled
    qc,       \* [Ids -> Conns \cup {0}]
    qst,      \* [Ids -> "unsent" | "part" | "sent" | "read" | "running" | "replied" | "nil" | "written" | "failed" | "aborted"]
    wr,       \* history: [Ids -> Nat] reply frames written
    ng,       \* [Conns -> Nat] garbage units sent (bound only)
    stalled,  \* [Conns -> BOOLEAN] the client has stopped reading (a Write cannot complete)
    trunc,    \* [Conns -> BOOLEAN] a reply frame was written only in part (write deadline passed)
    wat,      \* history: [Conns -> BOOLEAN] something was written behind a truncated frame
    late,     \* history: [Conns -> BOOLEAN] a message was read after the connection goroutine had to give up
    hist

vars == <<lst, cst, cl, pend, part, rpc, nread, dl, fired, cctx, qc, qst, wr, ng, stalled, trunc, wat, late, hist>>
H(e) == hist' = IF WithHist THEN Append(hist, e) ELSE hist

TCP == Mode = "tcp"
TokQ(q) == [k |-> "q", id |-> q]
TokG == [k |-> "garbage", id |-> 0]
TokE == [k |-> "eof", id |-> 0]

Init ==
    /\ lst = "open"
    /\ cst = [c \in Conns |-> IF TCP THEN "unborn" ELSE IF c = 1 THEN "open" ELSE "unborn"]
    /\ cl = [c \in Conns |-> "open"]
    /\ pend = [c \in Conns |-> <<>>]
    /\ part = [c \in Conns |-> 0]
    /\ rpc = [c \in Conns |-> IF TCP THEN "none" ELSE IF c = 1 THEN "read" ELSE "none"]
    /\ nread = [c \in Conns |-> 0]
    /\ dl = [c \in Conns |-> "none"]
    /\ fired = [c \in Conns |-> FALSE]
    /\ cctx = [c \in Conns |-> FALSE]
    /\ qc = [q \in Ids |-> 0]
    /\ qst = [q \in Ids |-> "unsent"]
    /\ wr = [q \in Ids |-> 0]
    /\ late = [c \in Conns |-> FALSE]
    /\ ng = [c \in Conns |-> 0]
    /\ stalled = [c \in Conns |-> FALSE] /\ trunc = [c \in Conns |-> FALSE] /\ wat = [c \in Conns |-> FALSE]
    /\ hist = <<>>

CtxDone(c) == cctx[c] \/ lst = "returned"
\* the client can still put bytes on the wire (the server may have closed already: bytes are lost)
ClientUp(c) == cst[c] # "unborn" /\ cl[c] = "open"

---------------------------------------------------------------------------
\* ENVIRONMENT

Accept(c) ==
    /\ TCP /\ lst = "open" /\ cst[c] = "unborn"
    /\ cst' = [cst EXCEPT ![c] = "open"] /\ rpc' = [rpc EXCEPT ![c] = "arm"]
    /\ H([a |-> "Accept", c |-> c])
    /\ UNCHANGED <<lst, cl, pend, part, nread, dl, fired, cctx, qc, qst, wr, ng, stalled, trunc, wat, late>>

Send(c, q) ==
    /\ ClientUp(c) /\ part[c] = 0 /\ qst[q] = "unsent"
    /\ qst' = [qst EXCEPT ![q] = "sent"] /\ qc' = [qc EXCEPT ![q] = c]
    /\ pend' = [pend EXCEPT ![c] = Append(@, TokQ(q))]
    /\ H([a |-> "Send", c |-> c, q |-> q])
    /\ UNCHANGED <<lst, cst, cl, part, rpc, nread, dl, fired, cctx, wr, ng, stalled, trunc, wat, late>>

SendPart(c, q) ==
    /\ TCP /\ ClientUp(c) /\ part[c] = 0 /\ qst[q] = "unsent"
    /\ qst' = [qst EXCEPT ![q] = "part"] /\ qc' = [qc EXCEPT ![q] = c]
    /\ part' = [part EXCEPT ![c] = q]
    /\ H([a |-> "SendPart", c |-> c, q |-> q])
    /\ UNCHANGED <<lst, cst, cl, pend, rpc, nread, dl, fired, cctx, wr, ng, stalled, trunc, wat, late>>

SendRest(c) ==
    /\ TCP /\ ClientUp(c) /\ part[c] # 0
    /\ qst' = [qst EXCEPT ![part[c]] = "sent"]
    /\ pend' = [pend EXCEPT ![c] = Append(@, TokQ(part[c]))]
    /\ part' = [part EXCEPT ![c] = 0]
    /\ H([a |-> "SendRest", c |-> c, q |-> part[c]])
    /\ UNCHANGED <<lst, cst, cl, rpc, nread, dl, fired, cctx, qc, wr, ng, stalled, trunc, wat, late>>

Garbage(c) ==
    /\ ClientUp(c) /\ part[c] = 0 /\ ng[c] < MaxG
    /\ pend' = [pend EXCEPT ![c] = Append(@, TokG)] /\ ng' = [ng EXCEPT ![c] = @ + 1]
    /\ H([a |-> "Garbage", c |-> c])
    /\ UNCHANGED <<lst, cst, cl, part, rpc, nread, dl, fired, cctx, qc, qst, wr, stalled, trunc, wat, late>>

\* the client closes its sending side (possibly in the middle of a frame)
HalfClose(c) ==
    /\ TCP /\ ClientUp(c)
    /\ cl' = [cl EXCEPT ![c] = "eof"]
    /\ pend' = [pend EXCEPT ![c] = Append(@, TokE)]
    /\ H([a |-> "HalfClose", c |-> c])
    /\ UNCHANGED <<lst, cst, part, rpc, nread, dl, fired, cctx, qc, qst, wr, ng, stalled, trunc, wat, late>>

TimerFire(c) ==
    /\ TCP /\ cst[c] = "open" /\ dl[c] # "none" /\ ~fired[c]
    /\ fired' = [fired EXCEPT ![c] = TRUE]
    /\ H([a |-> "TimerFire", c |-> c])
    /\ UNCHANGED <<lst, cst, cl, pend, part, rpc, nread, dl, cctx, qc, qst, wr, ng, stalled, trunc, wat, late>>

\* the client stops / resumes reading: while it is stalled no Write on c can complete
Stall(c) ==
    /\ TCP /\ cst[c] # "unborn" /\ ~stalled[c]
    /\ stalled' = [stalled EXCEPT ![c] = TRUE]
    /\ H([a |-> "Stall", c |-> c])
    /\ UNCHANGED <<lst, cst, cl, pend, part, rpc, nread, dl, fired, cctx, qc, qst, wr, ng, trunc, wat, late>>
Unstall(c) ==
    /\ TCP /\ stalled[c]
    /\ stalled' = [stalled EXCEPT ![c] = FALSE]
    /\ H([a |-> "Unstall", c |-> c])
    /\ UNCHANGED <<lst, cst, cl, pend, part, rpc, nread, dl, fired, cctx, qc, qst, wr, ng, trunc, wat, late>>

Release(q, k) ==
    /\ qst[q] = "running" /\ k \in {"reply", "nil"}
    /\ qst' = [qst EXCEPT ![q] = IF k = "reply" THEN "replied" ELSE "nil"]
    /\ H([a |-> "Release", q |-> q, k |-> k])
    /\ UNCHANGED <<lst, cst, cl, pend, part, rpc, nread, dl, fired, cctx, qc, wr, ng, stalled, trunc, wat, late>>

ListenerClose ==
    /\ lst = "open" /\ lst' = "closed"
    /\ H([a |-> "ListenerClose"])
    /\ UNCHANGED <<cst, cl, pend, part, rpc, nread, dl, fired, cctx, qc, qst, wr, ng, stalled, trunc, wat, late>>

---------------------------------------------------------------------------
\* SERVER

ArmClass(c) == IF DEV = "no_rearm" THEN "first" ELSE IF nread[c] = 0 THEN "first" ELSE "idle"

Arm(c) ==
    /\ TCP /\ rpc[c] = "arm" /\ cst[c] = "open"
    /\ dl' = [dl EXCEPT ![c] = ArmClass(c)] /\ fired' = [fired EXCEPT ![c] = FALSE]
    /\ rpc' = [rpc EXCEPT ![c] = "read"]
    /\ cctx' = [cctx EXCEPT ![c] = @ \/ (DEV = "ctx_early" /\ nread[c] > 0)]
    /\ H([a |-> "Arm", c |-> c, cls |-> ArmClass(c)])
    /\ UNCHANGED <<lst, cst, cl, pend, part, nread, qc, qst, wr, ng, stalled, trunc, wat, late>>

\* SetReadDeadline on a connection a handler has closed meanwhile: no effect
ArmClosed(c) ==
    /\ TCP /\ rpc[c] = "arm" /\ cst[c] = "closed"
    /\ rpc' = [rpc EXCEPT ![c] = "read"]
    /\ UNCHANGED <<lst, cst, cl, pend, part, nread, dl, fired, cctx, qc, qst, wr, ng, stalled, trunc, wat, late, hist>>

\* index of the unit the next read consumes
Heads(c) == IF pend[c] = <<>> THEN {} ELSE IF TCP THEN {1} ELSE 1..Len(pend[c])
Drop(s, i) == [j \in 1..(Len(s) - 1) |-> IF j < i THEN s[j] ELSE s[j + 1]]

\* lateok: only used by the trace spec - a datagram that was already queued may be read although the owner
\* has (logged that it is about to) close the socket
ReadQueryG(c, lateok) ==
    /\ rpc[c] = "read" /\ cst[c] = "open" /\ ~fired[c]
    /\ TCP \/ lst = "open" \/ lateok
    /\ \E i \in Heads(c) :
         /\ pend[c][i].k = "q"
         /\ qst' = [qst EXCEPT ![pend[c][i].id] = "read"]
         /\ pend' = [pend EXCEPT ![c] = Drop(@, i)]
         /\ H([a |-> "ReadQuery", c |-> c, q |-> pend[c][i].id])
    /\ nread' = [nread EXCEPT ![c] = @ + 1]
    /\ rpc' = [rpc EXCEPT ![c] = IF TCP THEN "arm" ELSE "read"]
    /\ UNCHANGED <<lst, cst, cl, part, dl, fired, cctx, qc, wr, ng, stalled, trunc, wat, late>>
ReadQuery(c) == ReadQueryG(c, FALSE)

\* udp: a malformed datagram is skipped
SkipBad(c) ==
    /\ ~TCP /\ rpc[c] = "read" /\ cst[c] = "open"
    /\ \E i \in Heads(c) : pend[c][i].k = "garbage" /\ pend' = [pend EXCEPT ![c] = Drop(@, i)]
    /\ UNCHANGED <<lst, cst, cl, part, rpc, nread, dl, fired, cctx, qc, qst, wr, ng, stalled, trunc, wat, late, hist>>

\* the read fails: the connection goroutine gives up
ReadBad(c) ==
    /\ rpc[c] = "read"
    /\ \/ TCP /\ cst[c] = "closed" /\ UNCHANGED pend
       \/ ~TCP /\ lst # "open" /\ UNCHANGED pend      \* udp: the socket has been closed
       \/ TCP /\ cst[c] = "open" /\ fired[c] /\ UNCHANGED pend
       \/ TCP /\ cst[c] = "open" /\ ~fired[c] /\ pend[c] # <<>> /\ Head(pend[c]).k \in {"garbage", "eof"}
             /\ pend' = [pend EXCEPT ![c] = Tail(@)]
    /\ rpc' = [rpc EXCEPT ![c] = IF DEV = "garbage_continues" /\ cst[c] = "open" /\ ~fired[c] THEN "arm" ELSE "exit"]
    /\ late' = [late EXCEPT ![c] = TRUE]     \* from now on nothing may be read from c
    /\ UNCHANGED <<lst, cst, cl, part, nread, dl, fired, cctx, qc, qst, wr, ng, stalled, trunc, wat, hist>>

LateRead(c) == late[c]    \* evaluated in the state BEFORE a ReadQuery (see NoReadAfterGiveUp)

ReaderCancel(c) ==
    /\ TCP /\ rpc[c] = "exit" /\ ~cctx[c] /\ DEV # "ctx_not_cancelled"
    /\ cctx' = [cctx EXCEPT ![c] = TRUE]
    /\ UNCHANGED <<lst, cst, cl, pend, part, rpc, nread, dl, fired, qc, qst, wr, ng, stalled, trunc, wat, late, hist>>

ReaderClose(c) ==
    /\ TCP /\ rpc[c] = "exit" /\ cst[c] = "open"
    /\ cst' = [cst EXCEPT ![c] = "closed"]
    /\ H([a |-> "Close", c |-> c])
    /\ UNCHANGED <<lst, cl, pend, part, rpc, nread, dl, fired, cctx, qc, qst, wr, ng, stalled, trunc, wat, late>>

ReaderDone(c) ==
    /\ TCP /\ rpc[c] = "exit" /\ cst[c] = "closed" /\ (cctx[c] \/ DEV = "ctx_not_cancelled")
    /\ rpc' = [rpc EXCEPT ![c] = "done"]
    /\ UNCHANGED <<lst, cst, cl, pend, part, nread, dl, fired, cctx, qc, qst, wr, ng, stalled, trunc, wat, late, hist>>

Invoke(q) ==
    /\ qst[q] = "read"
    /\ qst' = [qst EXCEPT ![q] = "running"]
    /\ H([a |-> "Invoke", q |-> q, c |-> qc[q]])
    /\ UNCHANGED <<lst, cst, cl, pend, part, rpc, nread, dl, fired, cctx, qc, wr, ng, stalled, trunc, wat, late>>

Write(q) ==
    /\ \/ qst[q] = "replied"
       \/ DEV = "write_twice" /\ qst[q] = "written"
    /\ IF TCP THEN cst[qc[q]] = "open" /\ ~stalled[qc[q]]     \* udp: the write succeeds only before the socket is really
              ELSE lst # "returned"         \* closed, i.e. before ServeUDP returns (arrival observed later: trace spec)
    /\ (TCP /\ trunc[qc[q]]) => DEV = "write_after_trunc"    \* never anything behind a truncated frame
    /\ wat' = [wat EXCEPT ![qc[q]] = @ \/ (TCP /\ trunc[qc[q]])]
    /\ qst' = [qst EXCEPT ![q] = "written"] /\ wr' = [wr EXCEPT ![q] = @ + 1]
    /\ H([a |-> "Write", q |-> q, c |-> qc[q]])
    /\ UNCHANGED <<lst, cst, cl, pend, part, rpc, nread, dl, fired, cctx, qc, ng, stalled, trunc, late>>

\* a server that arms write deadlines (the present code does not): the client is stalled, the deadline passes, Write
\* returns after a PART of the frame.  Optional (not part of Server: no fairness, not counted by ServerQuiet).
PartialWrite(q) ==
    /\ TCP /\ WithWDL /\ qst[q] = "replied" /\ cst[qc[q]] = "open" /\ stalled[qc[q]]
    /\ trunc[qc[q]] => DEV = "write_after_trunc"
    /\ wat' = [wat EXCEPT ![qc[q]] = @ \/ trunc[qc[q]]]
    /\ trunc' = [trunc EXCEPT ![qc[q]] = TRUE]
    /\ qst' = [qst EXCEPT ![q] = "failed"]
    /\ H([a |-> "PartialWrite", q |-> q, c |-> qc[q]])
    /\ UNCHANGED <<lst, cst, cl, pend, part, rpc, nread, dl, fired, cctx, qc, wr, ng, stalled, late>>

\* ... after which the only thing the server may still do with the connection is close it
TruncClose(c) ==
    /\ TCP /\ trunc[c] /\ cst[c] = "open"
    /\ cst' = [cst EXCEPT ![c] = "closed"]
    /\ H([a |-> "Close", c |-> c])
    /\ UNCHANGED <<lst, cl, pend, part, rpc, nread, dl, fired, cctx, qc, qst, wr, ng, stalled, trunc, wat, late>>

WriteFail(q) ==
    /\ qst[q] = "replied" /\ (IF TCP THEN cst[qc[q]] = "closed" ELSE lst # "open")
    /\ qst' = [qst EXCEPT ![q] = "failed"]
    /\ H([a |-> "WriteFail", q |-> q, c |-> qc[q]])
    /\ UNCHANGED <<lst, cst, cl, pend, part, rpc, nread, dl, fired, cctx, qc, wr, ng, stalled, trunc, wat, late>>

\* nil payload: tcp closes the connection at once, udp does nothing
Abort(q) ==
    /\ qst[q] = "nil"
    /\ qst' = [qst EXCEPT ![q] = "aborted"]
    /\ IF TCP /\ cst[qc[q]] = "open" /\ DEV # "nil_keeps_open"
         THEN cst' = [cst EXCEPT ![qc[q]] = "closed"] /\ H([a |-> "Close", c |-> qc[q]])
         ELSE UNCHANGED <<cst, hist>>
    /\ UNCHANGED <<lst, cl, pend, part, rpc, nread, dl, fired, cctx, qc, wr, ng, stalled, trunc, wat, late>>

ServeReturn ==
    /\ IF TCP THEN lst = "closed" ELSE rpc[1] = "exit"
    /\ lst' = "returned"
    /\ rpc' = IF TCP THEN rpc ELSE [rpc EXCEPT ![1] = "done"]
    /\ H([a |-> "ServeReturn"])
    /\ UNCHANGED <<cst, cl, pend, part, nread, dl, fired, cctx, qc, qst, wr, ng, stalled, trunc, wat, late>>

Env ==
    \/ \E c \in Conns : Accept(c) \/ SendRest(c) \/ Garbage(c) \/ HalfClose(c) \/ TimerFire(c) \/ Stall(c) \/ Unstall(c)
    \/ \E c \in Conns, q \in Ids : Send(c, q) \/ SendPart(c, q)
    \/ \E q \in Ids, k \in {"reply", "nil"} : Release(q, k)
    \/ ListenerClose

Server ==
    \/ \E c \in Conns : Arm(c) \/ ArmClosed(c) \/ ReadQuery(c) \/ SkipBad(c) \/ ReadBad(c)
                          \/ ReaderCancel(c) \/ ReaderClose(c) \/ ReaderDone(c) \/ TruncClose(c)
    \/ \E q \in Ids : Invoke(q) \/ Write(q) \/ WriteFail(q) \/ Abort(q)
    \/ ServeReturn

Next == Env \/ Server \/ \E q \in Ids : PartialWrite(q)

Spec == Init /\ [][Next]_vars
FairSpec == Spec /\ WF_vars(Server)
              /\ \A c \in Conns : WF_vars(ReadBad(c)) /\ WF_vars(ReaderClose(c)) /\ WF_vars(ReaderCancel(c))
                                  /\ WF_vars(ReaderDone(c)) /\ WF_vars(TruncClose(c)) /\ WF_vars(Arm(c) \/ ArmClosed(c)) /\ WF_vars(ReadQuery(c))
              /\ \A q \in Ids : WF_vars(Invoke(q)) /\ WF_vars(Write(q) \/ WriteFail(q)) /\ WF_vars(Abort(q))
              /\ WF_vars(ServeReturn)

---------------------------------------------------------------------------
\* PROPERTIES

TypeOK ==
    /\ lst \in {"open", "closed", "returned"}
    /\ \A c \in Conns : /\ cst[c] \in {"unborn", "open", "closed"}
                        /\ rpc[c] \in {"none", "arm", "read", "exit", "done"}
                        /\ dl[c] \in {"none", "first", "idle"}
    /\ \A q \in Ids : qst[q] \in {"unsent", "part", "sent", "read", "running", "replied", "nil", "written", "failed", "aborted"}

\* at most one reply frame per query, and only for a query whose handler returned a payload
OneReply == \A q \in Ids : wr[q] <= 1 /\ (wr[q] = 1 <=> qst[q] = "written")

\* once a read failed (timeout, EOF, short/garbled frame, closed) nothing more is read from that
\* connection, so later bytes are never answered.  `late` is set by ReadBad; a read afterwards
\* (rpc back to "arm"/"read" on an open connection) would be the deviation.
NoReadAfterGiveUp == \A c \in Conns : (TCP /\ late[c]) => rpc[c] \in {"exit", "done"}

\* while the server waits for a message the armed deadline is the first-read timeout before the
\* first message and the idle timeout afterwards
DeadlineClass == \A c \in Conns :
    (TCP /\ rpc[c] = "read" /\ cst[c] = "open") => dl[c] = (IF nread[c] = 0 THEN "first" ELSE "idle")

\* a handler returning nil ends its tcp connection
NilCloses == \A q \in Ids : (TCP /\ qst[q] = "aborted") => cst[qc[q]] = "closed"

\* the connection context is not cancelled while the connection is being served
CtxNotEarly == \A c \in Conns : cctx[c] => rpc[c] \in {"exit", "done"}

\* a finished connection goroutine leaves a closed connection and a cancelled context
DoneIsClean == \A c \in Conns : (TCP /\ rpc[c] = "done") => (cst[c] = "closed" /\ cctx[c])

\* the byte stream a client sees is whole frames, possibly followed by ONE truncated frame at the very end
FramesWhole == \A c \in Conns : ~wat[c]

SCInv == FramesWhole /\ OneReply /\ NoReadAfterGiveUp /\ DeadlineClass /\ NilCloses /\ CtxNotEarly /\ DoneIsClean

\* liveness (FairSpec)
ReplyLive == \A q \in Ids : (qst[q] \in {"replied", "nil"}) ~> (qst[q] \in {"written", "failed", "aborted"} \/ (qc[q] # 0 /\ stalled[qc[q]]))
TruncCloses == \A c \in Conns : trunc[c] ~> (cst[c] = "closed")
TimeoutCloses == \A c \in Conns : (fired[c] /\ rpc[c] = "read") ~> (cst[c] = "closed")
EofCloses == \A c \in Conns : (TCP /\ cl[c] = "eof" /\ cst[c] = "open") ~> (cst[c] = "closed")
ClosedCancels == \A c \in Conns : (TCP /\ cst[c] = "closed") ~> (cctx[c] /\ rpc[c] = "done")
ListenerEnds == (lst = "closed") ~> (lst = "returned")
ReadLive == \A q \in Ids : (qst[q] = "read") ~> (qst[q] = "running")

\* the server has nothing left to do (used by the trace spec for the harness event Quiet)
ServerQuiet == ~ENABLED Server

\* behaviour export
Emit == (Len(hist) = GenLen) => PrintT(<<"BEH", ToJson([steps |-> hist])>>)
GenBound == Len(hist) <= GenLen

ViewNoHist == <<lst, cst, cl, pend, part, rpc, nread, dl, fired, cctx, qc, qst, wr, ng, stalled, trunc, wat, late>>
=============================================================================
