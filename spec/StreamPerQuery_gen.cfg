\* leg B generator (simulation): complete schedules; internal steps run to completion before the environment moves
SPECIFICATION Spec
CONSTANTS
  Callers = {1, 2, 3}
  IdVals = {0, 1, 2}
  Kinds = {"ok", "garbage", "short", "status"}
  EnvCancel = TRUE
  EnvAbort = TRUE
  Eager = TRUE
  WithHist = TRUE
  Deviation = "none"
INVARIANTS Emit
CHECK_DEADLOCK FALSE
