\* leg A (C01 reuse part): surplus message on an idle connection, 2 calls
SPECIFICATION Spec
CONSTANTS
  NCalls = 2
  MaxDials = 2
  Policy = "code"
  MaxRetry = 2
  AttemptBound = 4
  RandomSelect = FALSE
  LockInOnce = FALSE
  Dev = {}
  MaxFaults = 1
  Kinds = {"eof", "surplus"}
  OrderedStart = TRUE
  CancelCalls = {}
  EnvTClose = FALSE
  Coarse = TRUE
  Eager = FALSE
  WithHist = FALSE
VIEW ViewNoHist
INVARIANTS TypeOK FailOnlyWhen AttemptsBounded NoLoss ErrOnFault ClosedRejects CloseWakesAll ArmedIsShortWhenOwed OneAtATime IdleSound NoSpuriousUnexpected NoLockCycle

CHECK_DEADLOCK FALSE
