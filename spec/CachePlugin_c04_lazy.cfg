\* static copy for readers; checks/C04.py generates this text at run time through cachelib.cfg(): run on module CachePlugin_MC
\* leg A / generator C04 lazy mode: entries written by background refreshes
SPECIFICATION Spec
CONSTANTS
  Names = {"n1", "n2"}
  Types = {"t1"}
  Classes = {"c1"}
  Flags = {0}
  Kinds = {"std"}
  KeyFields <- AllKey
  Resps <- RespsC04L
  LazyTTLs = {50}
  Ticks = {10}
  MaxNow = 30
  MaxOps = 5
  NxMax = 30
  SfMax = 5
  EmptyMax = 300
  StaleTTL = 5
  TTLMode = "stored"
  Admit = "rule"
  Dedup = TRUE
  RefreshOwner = "asked"
  Alias = "none"
  DumpFields <- AllDump
  Insts = {1}
  OpKinds = {"exec", "tick", "refresh"}
  MaxHandles = 0
  WithHist = FALSE
VIEW ViewNoHist
INVARIANTS TypeOK NoSharing BypassRule TTLRule StaleRule AdmissionRule NeverServedAfterExpiry AtMostOneRefresh Isolation HitId RestartTransparent
CHECK_DEADLOCK FALSE
