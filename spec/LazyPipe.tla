------------------------------ MODULE LazyPipe ------------------------------
(***************************************************************************)
(* pkg/upstream/transport/pipeline.go (getReservedExchanger,               *)
(* ExchangeContext) + conn_lazy_dial.go (lazyDnsConn) — the C09 view:      *)
(* admission of queries to pipeline connections, including queries queued  *)
(* while a connection is still dialing.  The established connection is     *)
(* abstract here (capacity CLimit, see PipeConn.tla for its inside).       *)
(*                                                                         *)
(*   Call(c)        ExchangeContext invoked                                *)
(*   Attach*(c)     getReservedExchanger (one t.m section): the query is   *)
(*                  queued on a dialing connection (early reservation,     *)
(*                  at most QLimit), admitted by a ready connection, or a  *)
(*                  new connection is dialed — only if no existing one can *)
(*                  take it                                                *)
(*   DialStart(k)   the dial function is invoked (names the connection)    *)
(*   DialOk/DialFail(k)   the dial function returns                        *)
(*   DialPublish(k)       close(dialFinished): the result becomes visible  *)
(*   EarlyAdmit / EarlyRefuse / EarlyFail(c)  early caller after           *)
(*                  dialFinished: re-reserves on the real connection       *)
(*   Write(c), Reply(c), Finish(c), Return(c)                              *)
(* Late callers reach a ready connection only after all its early callers  *)
(* have re-reserved (earlyReserveCallWg).                                  *)
(* Deviation DOUBLE_COUNT (D5): the real connection counts a written query *)
(* twice when it decides about a reservation.  Deviation DONE_EARLY: the   *)
(* early caller's wg.Done() precedes its re-reservation, a late caller can *)
(* take its slot.  C08 part: ConnDie / DieRetry (a dead connection admits  *)
(* nothing, a query that failed on a reused connection is retried          *)
(* elsewhere); deviation DEAD_ADMITS.                                      *)
(***************************************************************************)
EXTENDS Integers, FiniteSets, Sequences, TLC

CONSTANTS Callers, Slots, QLimits, CLimits, MaxCalls, MaxDialFail, DOUBLE_COUNT,
          DONE_EARLY,  \* deviation: an early caller signals earlyReserveCallWg.Done() BEFORE it re-reserves
          DEAD_ADMITS  \* deviation (C08): a connection whose close has begun still hands out reservations

VARIABLES qlim, clim,
          cst,      \* slot -> "none" | "new" (dial goroutine not yet in the dial func) | "dialing" |
                    \*         "okret" / "failret" (dial func returned, dialFinished not yet closed) | "ready" | "failed"
          name,     \* slot -> observed connection number (0 = not yet named)
          early,    \* slot -> set of callers queued while dialing
          inuse,    \* slot -> set of callers admitted by the established connection
          pc, at, res, tries, calls, creator,
          replied,  \* callers whose reply has been handed to the connection
          ndialfail, spurious

vars == <<qlim, clim, cst, name, early, inuse, pc, at, res, tries, calls, creator, replied, ndialfail, spurious>>

Init ==
    /\ qlim \in QLimits /\ clim \in CLimits
    /\ cst = [s \in Slots |-> "none"] /\ name = [s \in Slots |-> 0]
    /\ early = [s \in Slots |-> {}] /\ inuse = [s \in Slots |-> {}]
    /\ pc = [c \in Callers |-> "idle"] /\ at = [c \in Callers |-> 0]
    /\ res = [c \in Callers |-> "none"] /\ tries = [c \in Callers |-> 0]
    /\ calls = [c \in Callers |-> 0] /\ creator = [c \in Callers |-> FALSE]
    /\ replied = {} /\ ndialfail = 0 /\ spurious = FALSE

\* what the established connection believes it carries when it decides about a reservation
Counted(s) == Cardinality(inuse[s]) +
              (IF DOUBLE_COUNT THEN Cardinality({c \in inuse[s] : pc[c] \in {"written", "finishing"}}) ELSE 0)

\* states in which the lazy connection still queues callers as early reservations
Dialing == {"new", "dialing", "okret", "failret"}

CanTake(s) ==
    \/ cst[s] \in Dialing /\ Cardinality(early[s]) < qlim
    \/ cst[s] = "ready" /\ Cardinality(inuse[s]) + Cardinality(early[s]) < clim

Call(c) ==
    /\ pc[c] = "idle" /\ calls[c] < MaxCalls
    /\ pc' = [pc EXCEPT ![c] = "calling"] /\ tries' = [tries EXCEPT ![c] = 0]
    /\ res' = [res EXCEPT ![c] = "none"]
    /\ UNCHANGED <<qlim, clim, cst, name, early, inuse, at, calls, creator, replied, ndialfail, spurious>>

AttachEarly(c, s) ==
    /\ pc[c] = "calling" /\ cst[s] \in Dialing /\ Cardinality(early[s]) < qlim
    /\ early' = [early EXCEPT ![s] = @ \cup {c}]
    /\ pc' = [pc EXCEPT ![c] = "early"] /\ at' = [at EXCEPT ![c] = s] /\ creator' = [creator EXCEPT ![c] = FALSE]
    /\ UNCHANGED <<qlim, clim, cst, name, inuse, res, tries, calls, replied, ndialfail, spurious>>

AttachReady(c, s) ==
    /\ pc[c] = "calling" /\ (cst[s] = "ready" \/ (DEAD_ADMITS /\ cst[s] = "dead")) /\ early[s] = {} /\ Counted(s) < clim
    /\ inuse' = [inuse EXCEPT ![s] = @ \cup {c}]
    /\ pc' = [pc EXCEPT ![c] = "admitted"] /\ at' = [at EXCEPT ![c] = s] /\ creator' = [creator EXCEPT ![c] = FALSE]
    /\ UNCHANGED <<qlim, clim, cst, name, early, res, tries, calls, replied, ndialfail, spurious>>

\* a connection that is ready but (as the real connection counts) full does not block a new dial
Full(s) == cst[s] = "ready" /\ early[s] = {} /\ Counted(s) >= clim

AttachNew(c, s) ==
    /\ pc[c] = "calling" /\ cst[s] = "none"
    /\ \A t \in Slots : ~CanTake(t) \/ Full(t)
    /\ \A t \in Slots : t < s => cst[t] # "none"
    /\ cst' = [cst EXCEPT ![s] = "new"]
    /\ early' = [early EXCEPT ![s] = {c}]
    /\ pc' = [pc EXCEPT ![c] = "early"] /\ at' = [at EXCEPT ![c] = s] /\ creator' = [creator EXCEPT ![c] = TRUE]
    /\ UNCHANGED <<qlim, clim, name, inuse, res, tries, calls, replied, ndialfail, spurious>>

DialStart(s, k) ==
    /\ cst[s] = "new" /\ cst' = [cst EXCEPT ![s] = "dialing"] /\ name' = [name EXCEPT ![s] = k]
    /\ UNCHANGED <<qlim, clim, early, inuse, pc, at, res, tries, calls, creator, replied, ndialfail, spurious>>

\* the dial function returns ...
DialOk(s) ==
    /\ cst[s] = "dialing" /\ cst' = [cst EXCEPT ![s] = "okret"]
    /\ UNCHANGED <<qlim, clim, name, early, inuse, pc, at, res, tries, calls, creator, replied, ndialfail, spurious>>

DialFail(s) ==
    /\ cst[s] = "dialing" /\ ndialfail < MaxDialFail
    /\ cst' = [cst EXCEPT ![s] = "failret"] /\ ndialfail' = ndialfail + 1
    /\ UNCHANGED <<qlim, clim, name, early, inuse, pc, at, res, tries, calls, creator, replied, spurious>>

\* ... and the dial goroutine publishes the result (close(dialFinished) under lc.mu)
DialPublish(s) ==
    /\ cst[s] \in {"okret", "failret"}
    /\ cst' = [cst EXCEPT ![s] = IF cst[s] = "okret" THEN "ready" ELSE "failed"]
    /\ UNCHANGED <<qlim, clim, name, early, inuse, pc, at, res, tries, calls, creator, replied, ndialfail, spurious>>

\* an early caller's outcome is final if it created the connection or has retried twice; else it may retry
EndOrRetry(c, e) ==
    \/ /\ pc' = [pc EXCEPT ![c] = "done"] /\ res' = [res EXCEPT ![c] = e] /\ UNCHANGED tries
    \/ /\ ~creator[c] /\ tries[c] < 2
       /\ pc' = [pc EXCEPT ![c] = "calling"] /\ tries' = [tries EXCEPT ![c] = @ + 1] /\ UNCHANGED res

\* Design: an early caller leaves the early set (wg.Done) only together with its re-reservation on the dialed
\* connection, so later callers (AttachReady needs early = {}) cannot overtake it.  Deviation DONE_EARLY: Done first.
EarlyDone(c) ==
    /\ DONE_EARLY /\ pc[c] = "early" /\ cst[at[c]] = "ready"
    /\ early' = [early EXCEPT ![at[c]] = @ \ {c}]
    /\ pc' = [pc EXCEPT ![c] = "rereserve"]
    /\ UNCHANGED <<qlim, clim, cst, name, inuse, at, res, tries, calls, creator, replied, ndialfail, spurious>>

EarlyAdmit(c) ==
    /\ pc[c] \in {"early", "rereserve"} /\ cst[at[c]] = "ready" /\ Counted(at[c]) < clim
    /\ early' = [early EXCEPT ![at[c]] = @ \ {c}]
    /\ inuse' = [inuse EXCEPT ![at[c]] = @ \cup {c}]
    /\ pc' = [pc EXCEPT ![c] = "admitted"]
    /\ UNCHANGED <<qlim, clim, cst, name, at, res, tries, calls, creator, replied, ndialfail, spurious>>

EarlyRefuse(c) ==
    /\ pc[c] \in {"early", "rereserve"} /\ cst[at[c]] = "ready" /\ Counted(at[c]) >= clim
    /\ early' = [early EXCEPT ![at[c]] = @ \ {c}]
    /\ spurious' = (spurious \/ Cardinality(inuse[at[c]]) < clim)
    /\ EndOrRetry(c, "refused")
    /\ UNCHANGED <<qlim, clim, cst, name, inuse, at, calls, creator, replied, ndialfail>>

EarlyFail(c) ==
    /\ pc[c] = "early" /\ cst[at[c]] = "failed"
    /\ early' = [early EXCEPT ![at[c]] = @ \ {c}]
    /\ EndOrRetry(c, "dial")
    /\ UNCHANGED <<qlim, clim, cst, name, inuse, at, calls, creator, replied, ndialfail, spurious>>

\* C08: the established connection dies (peer closes / read error): from the instant its close begins (`closed` is
\* set before anything can block) it admits nothing; the transport drops it and dials instead.  (ndialfail is the
\* common fault budget of the model.)
ConnDie(s) ==
    /\ cst[s] = "ready" /\ ndialfail < MaxDialFail
    /\ cst' = [cst EXCEPT ![s] = "dead"] /\ ndialfail' = ndialfail + 1
    /\ UNCHANGED <<qlim, clim, name, early, inuse, pc, at, res, tries, calls, creator, replied, spurious>>

\* a query on the dead connection fails there.  C08: if the connection was a reused one (not created for this call)
\* the query is retried (at least once, at most 3 times) — on a connection that can take it, never the dead one;
\* a failure is reported only for a fresh connection or after a retry.
DieRetry(c) ==
    /\ pc[c] \in {"admitted", "written"} /\ cst[at[c]] = "dead"
    /\ inuse' = [inuse EXCEPT ![at[c]] = @ \ {c}] /\ replied' = replied \ {c}
    /\ \/ /\ tries[c] < 3 /\ ~creator[c]
          /\ pc' = [pc EXCEPT ![c] = "calling"] /\ tries' = [tries EXCEPT ![c] = @ + 1] /\ UNCHANGED res
       \/ /\ creator[c] \/ tries[c] >= 1
          /\ pc' = [pc EXCEPT ![c] = "done"] /\ res' = [res EXCEPT ![c] = "other"] /\ UNCHANGED tries
    /\ UNCHANGED <<qlim, clim, cst, name, early, at, calls, creator, ndialfail, spurious>>

Write(c) ==
    /\ pc[c] = "admitted" /\ pc' = [pc EXCEPT ![c] = "written"]
    /\ UNCHANGED <<qlim, clim, cst, name, early, inuse, at, res, tries, calls, creator, replied, ndialfail, spurious>>

Reply(c) ==
    /\ pc[c] = "written" /\ c \notin replied /\ replied' = replied \cup {c}
    /\ UNCHANGED <<qlim, clim, cst, name, early, inuse, pc, at, res, tries, calls, creator, ndialfail, spurious>>

\* the call has its reply; the connection's capacity is released (two separate steps of the code)
Finish(c) ==
    /\ pc[c] = "written" /\ c \in replied
    /\ pc' = [pc EXCEPT ![c] = "finishing"] /\ res' = [res EXCEPT ![c] = "reply"]
    /\ UNCHANGED <<qlim, clim, cst, name, early, inuse, at, tries, calls, creator, replied, ndialfail, spurious>>

Release(c) ==
    /\ pc[c] = "finishing"
    /\ inuse' = [inuse EXCEPT ![at[c]] = @ \ {c}]
    /\ pc' = [pc EXCEPT ![c] = "done"]
    /\ UNCHANGED <<qlim, clim, cst, name, early, at, res, tries, calls, creator, replied, ndialfail, spurious>>

Return(c) ==
    /\ pc[c] = "done"
    /\ pc' = [pc EXCEPT ![c] = "idle"] /\ calls' = [calls EXCEPT ![c] = @ + 1]
    /\ replied' = replied \ {c} /\ at' = [at EXCEPT ![c] = 0]
    /\ UNCHANGED <<qlim, clim, cst, name, early, inuse, res, tries, creator, ndialfail, spurious>>

Next ==
    \/ \E c \in Callers : Call(c) \/ EarlyDone(c) \/ EarlyAdmit(c) \/ EarlyRefuse(c) \/ EarlyFail(c) \/ Write(c) \/ Reply(c)
                          \/ Finish(c) \/ Release(c) \/ Return(c) \/ DieRetry(c)
    \/ \E c \in Callers, s \in Slots : AttachEarly(c, s) \/ AttachReady(c, s) \/ AttachNew(c, s)
    \/ \E s \in Slots : DialStart(s, s) \/ DialOk(s) \/ DialFail(s) \/ DialPublish(s) \/ ConnDie(s)

Spec == Init /\ [][Next]_vars

------------------------------------------------------------------------------
\* C09
OnConn(s) == {c \in Callers : at[c] = s /\ pc[c] \in {"admitted", "written", "finishing"}}
ConnLimit == \A s \in Slots : Cardinality(OnConn(s)) <= clim
ExactConn == \A s \in Slots : inuse[s] = OnConn(s)
EarlyLimit == \A s \in Slots : Cardinality(early[s]) <= qlim
\* a healthy connection holding fewer queries than its limit admits another one: in particular queries queued
\* while dialing are not refused when the dial succeeds with a limit >= the queue limit
NoSpuriousRefusal == ~spurious
NoRefusalIfEqual == clim >= qlim => \A c \in Callers : res[c] # "refused"
Quiet == \A c \in Callers : pc[c] \in {"idle", "done", "calling"}
QuietFree == Quiet => \A s \in Slots : inuse[s] = {} /\ early[s] = {}

\* C08 (meaningful with a fault budget of 1): a single connection death does not make a query on a reused
\* connection fail — it is retried elsewhere and succeeds (clim >= qlim: no refusal has used up a retry)
SingleFaultSurvives == (MaxDialFail = 1 /\ clim >= qlim) => \A c \in Callers : res[c] = "other" => creator[c]

LazyInv == ConnLimit /\ ExactConn /\ EarlyLimit /\ NoSpuriousRefusal /\ QuietFree
=============================================================================
