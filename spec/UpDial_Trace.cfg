SPECIFICATION TraceSpec
CONSTANTS
  Kinds = {"tcp", "tls", "tcp+pipeline", "tls+pipeline", "udp"}
  Listens = {"accept", "refuse", "hang"}
  InitCalls = {1, 2}
  LateCall = 3
  MaxD = 4
  EnvCancel = TRUE
  WithHist = FALSE
  Eager = FALSE
  Deviation = "none"
CONSTRAINT HWM
POSTCONDITION Accepted
CHECK_DEADLOCK FALSE
