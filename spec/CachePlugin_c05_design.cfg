\* static copy for readers; checks/C05.py generates this text at run time through cachelib.cfg(): run on module CachePlugin_MC
\* leg A C05 (quick)
SPECIFICATION Spec
CONSTANTS
  Names = {"n1"}
  Types = {"t1"}
  Classes = {"c1"}
  Flags = {0}
  Kinds = {"std"}
  KeyFields <- AllKey
  Resps <- RespsC05small
  LazyTTLs = {0, 50}
  Ticks = {3, 7, 28, 32}
  MaxNow = 80
  MaxOps = 4
  NxMax = 30
  SfMax = 5
  EmptyMax = 300
  StaleTTL = 5
  TTLMode = "stored"
  Admit = "rule"
  Dedup = TRUE
  RefreshOwner = "asked"
  Alias = "none"
  DumpFields <- AllDump
  Insts = {1}
  OpKinds = {"exec", "tick", "refresh"}
  MaxHandles = 0
  WithHist = FALSE
VIEW ViewNoHist
INVARIANTS TypeOK TTLRule StaleRule AdmissionRule NeverServedAfterExpiry AtMostOneRefresh NoSharing
CHECK_DEADLOCK FALSE
