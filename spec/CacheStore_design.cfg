\* leg A: 3 threads, <= 4 calls in total (<= 2 per thread), 2 keys, capacity 1, every operation type, exhaustive
SPECIFICATION Spec
CONSTANTS
  Threads = {1, 2, 3}
  Keys = {1, 2}
  MinCap = 1
  Sizes = {0}
  OpTypes = {"get", "store", "del", "len", "flush", "range"}
  Exps = {"long", "short"}
  MaxOps = 4
  MaxPerThread = 2
  Exact = FALSE
  Dev = "none"
  TraceMode = FALSE
  SkipBand = FALSE
  WithHist = FALSE
INVARIANTS TypeOK Bounded NoForeignValue NoExpiredValue NoStaleAfterOverwriteOrFlush RangeSound LenBounded
VIEW ViewNoHist
CHECK_DEADLOCK FALSE
