\* static copy for readers; checks/C04.py generates this text at run time through cachelib.cfg(): run on module CachePlugin_MC
\* non-vacuity: class missing from the key (= D4) -> NoSharing must be violated
SPECIFICATION Spec
CONSTANTS
  Names = {"n1", "n2"}
  Types = {"t1", "t2"}
  Classes = {"c1", "c2"}
  Flags = {0, 1, 2, 4}
  Kinds = {"std"}
  KeyFields = {"name", "type", "ad", "cd", "do"}
  Resps <- RespsOne
  LazyTTLs = {0}
  Ticks = {1}
  MaxNow = 0
  MaxOps = 2
  NxMax = 30
  SfMax = 5
  EmptyMax = 300
  StaleTTL = 5
  TTLMode = "stored"
  Admit = "rule"
  Dedup = TRUE
  RefreshOwner = "asked"
  Alias = "none"
  DumpFields <- AllDump
  Insts = {1}
  OpKinds = {"exec"}
  MaxHandles = 0
  WithHist = FALSE
VIEW ViewNoHist
INVARIANTS NoSharing
CHECK_DEADLOCK FALSE
