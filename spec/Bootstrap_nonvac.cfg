SPECIFICATION Spec
CONSTANTS
  Callers = {c1, c2}
  Addrs = {1, 2}
  MaxNow = 5
  MinInt = 2
  WithHist = FALSE
  RETRY_AT_ONCE = TRUE
INVARIANTS TypeOK AtMostOneUpdate NoEarlyRetry ReturnedIsResolved ReadyHasAddr CtxOnlyIfCtx
VIEW ViewNoHist
CHECK_DEADLOCK FALSE
