\* 
SPECIFICATION TraceSpec
CONSTANTS
  N = 6
  MaxConn = 8
  MaxResend = 3
  MaxTries = 1
  MaxDup = 4
  TcChoices = {TRUE, FALSE}
  Overlap = TRUE
  Burst = 0
  EnvCancel = TRUE
  EnvClose = TRUE
  EnvDup = TRUE
  Matching = TRUE
  ReuseBusy = TRUE
  IdleOnCancel = FALSE
  ForgetKeepsIdle = FALSE
  DupAccepted = FALSE
  WithHist = FALSE
  Export = FALSE
CONSTRAINT HWM
POSTCONDITION Accepted
CHECK_DEADLOCK FALSE
