SPECIFICATION TraceSpec
CONSTANTS
  N = 3
  MaxConn = 6
  MaxResend = 3
  Matching = TRUE
  ReuseBusy = TRUE
  IdleOnCancel = FALSE
  WithHist = FALSE
  Export = FALSE
CONSTRAINT HWM
POSTCONDITION Accepted
CHECK_DEADLOCK FALSE
