\* non-vacuity: no retry after a failure on a reused connection
SPECIFICATION Spec
CONSTANTS
  NCalls = 2
  MaxDials = 2
  Policy = "noretry"
  MaxRetry = 2
  AttemptBound = 4
  RandomSelect = FALSE
  LockInOnce = FALSE
  Dev = {}
  MaxFaults = 1
  Kinds = {"eof"}
  OrderedStart = TRUE
  CancelCalls = {}
  EnvTClose = FALSE
  Coarse = TRUE
  Eager = FALSE
  WithHist = FALSE
VIEW ViewNoHist
INVARIANTS FailOnlyWhen

CHECK_DEADLOCK FALSE
