\* non-vacuity: no retry
SPECIFICATION Spec
CONSTANTS
  NCalls = 2
  MaxDials = 2
  Policy = "code"
  MaxRetry = -1
  AttemptBound = 4
  RandomSelect = FALSE
  LockInOnce = FALSE
  Dev = {}
  MaxFaults = 1
  Kinds = {"eof"}
  OrderedStart = TRUE
  CancelCalls = {}
  EnvTClose = FALSE
  Coarse = TRUE
  WithHist = FALSE
VIEW ViewNoHist
INVARIANTS FailOnlyWhen

CHECK_DEADLOCK FALSE
