\* leg A + leg B generator by simulation: ordered lists of <= 4 rules, full universe (Defs incl. keyword)
SPECIFICATION Spec
CONSTANTS
  MaxName = 4
  MaxPat = 3
  MaxRePat = 2
  KwLen = 3
  MaxRules = 4
  Defs = {"domain", "full", "keyword"}
  Types = {"full", "domain", "keyword", "regexp", "none"}
  SuffixMode = "label"
  OrderName = "fdrk"
  KeepDeepest = TRUE
  EmitAll = TRUE
INVARIANTS CheckEmit
CHECK_DEADLOCK FALSE
