\* non-vacuity template: checks/updial_extra.py substitutes Deviation and the invariant expected to fail
SPECIFICATION Spec
CONSTANTS
  Kinds = {"tcp", "tls", "tcp+pipeline", "tls+pipeline", "udp"}
  Listens = {"accept", "refuse", "hang"}
  InitCalls = {1}
  LateCall = 2
  MaxD = 2
  EnvCancel = TRUE
  WithHist = FALSE
  Eager = FALSE
  Deviation = "HANDSHAKE_IGNORES_CTX"
INVARIANTS DialEndsOnTimeout
VIEW ViewNoHist
CHECK_DEADLOCK FALSE
