SPECIFICATION TraceSpec
CONSTANTS
  NCalls = 6
  MaxDials = 6
  Policy = "any"
  MaxRetry = 2
  AttemptBound = 4
  RandomSelect = FALSE
  LockInOnce = FALSE
  Dev = {}
  MaxFaults = 6
  Kinds = {"eof", "surplus"}
  OrderedStart = FALSE
  CancelCalls = {1, 2, 3, 4, 5, 6}
  EnvTClose = TRUE
  Coarse = FALSE
  Eager = FALSE
  WithHist = FALSE
CONSTRAINT HWM
POSTCONDITION Accepted
CHECK_DEADLOCK FALSE
