---------------------------- MODULE Fallback ----------------------------
(***************************************************************************)
(* plugin/executable/sequence/fallback/fallback.go : doFallback            *)
(*                                                                         *)
(* One action per statement that other goroutines can observe:             *)
(*   primary goroutine : PrimFinish (primary.Exec returns), PrimSignal     *)
(*                       (close(primDone) / close(primFailed)), PrimSend   *)
(*                       (respChan <- r)                                   *)
(*   secondary         : SecWaitWake (first select, no always_standby),    *)
(*                       SecExecStart, SecFinish, SecStandbyWake (second   *)
(*                       select), SecSend                                  *)
(*   timer             : TimerFire (fastFallbackDuration elapsed)          *)
(*   caller            : CallerRecv, CallerCtx                             *)
(*   environment       : Cancel (caller's ctx), DeadlineFire (the 5 s /    *)
(*                       inherited deadline of the workers' own contexts)  *)
(* The order of the primary's two publication steps is the variable        *)
(* `order` so that the pinned code (signal first) and the repaired design  *)
(* (queue first) are both expressible; property C20 is the invariants.     *)
(***************************************************************************)
EXTENDS Naturals, Sequences, TLC, Json

CONSTANTS
    Orders,        \* subset of {"signal_first", "queue_first"} allowed in Init
    Standbys,      \* subset of BOOLEAN: always_standby settings explored
    TimerMays,     \* subset of BOOLEAN: TRUE = the threshold can elapse during the call
    EagerCaller,   \* TRUE: the caller receives as soon as something is queued (generator only)
    WithHist,      \* TRUE: record hist (behaviour export)
    LazyCaller,    \* TRUE: the caller reaches its select only after both workers are finished (generator only)
    EnvCancel,     \* TRUE: the caller's context may be cancelled
    EnvDeadline    \* TRUE: the workers' own deadline may pass during the call

VARIABLES
    order, standby, timerMay,      \* configuration, chosen in Init
    ppc, pout,                     \* primary: pc and outcome
    spc, sout,                     \* secondary: pc and outcome
    primDone, primFailed,          \* closed-channel flags
    chan,                          \* respChan (FIFO, cap 2): elements "P", "S", "nil"
    timerFired, ddlFired, ctxDone,
    cpc, nrecv, result,            \* caller
    timerAtPub,                    \* history: timer had fired at the primary's first publication step
    secStarted,                    \* history: secondary.Exec was invoked
    ctxAtStart,                    \* history: unused placeholder kept FALSE (reserved)
    hist

vars == <<order, standby, timerMay, ppc, pout, spc, sout, primDone, primFailed, chan,
          timerFired, ddlFired, ctxDone, cpc, nrecv, result, timerAtPub, secStarted, ctxAtStart, hist>>

Outcomes == {"ans", "none", "err"}

H(e) == hist' = IF WithHist THEN Append(hist, e) ELSE hist

Init ==
    /\ order \in Orders /\ standby \in Standbys /\ timerMay \in TimerMays
    /\ ppc = "exec" /\ pout = "na"
    /\ spc = IF standby THEN "start" ELSE "wait"
    /\ sout = "na"
    /\ primDone = FALSE /\ primFailed = FALSE /\ chan = <<>>
    /\ timerFired = FALSE /\ ddlFired = FALSE /\ ctxDone = FALSE
    /\ cpc = "recv" /\ nrecv = 0 /\ result = "na"
    /\ timerAtPub = FALSE /\ secStarted = FALSE /\ ctxAtStart = FALSE
    /\ hist = <<>>

\* Generator filter: with EagerCaller nothing else moves while the caller can receive.
CallerIdle == ~EagerCaller \/ cpc = "done" \/ (chan = <<>> /\ ~ctxDone)

------------------------------------------------------------------------------
\* primary goroutine

PrimFinish(o) ==
    /\ CallerIdle
    /\ ppc = "exec" /\ ppc' = "finished" /\ pout' = o
    /\ H([a |-> "PrimFinish", o |-> o])
    /\ UNCHANGED <<order, standby, timerMay, spc, sout, primDone, primFailed, chan, timerFired, ddlFired,
                   ctxDone, cpc, nrecv, result, timerAtPub, secStarted, ctxAtStart>>

FirstPub == ppc = "finished"

\* `order` is about the success path; a failed primary closes primFailed and then queues nil
EffOrder == IF pout = "ans" THEN order ELSE "signal_first"

PrimSignal ==
    /\ CallerIdle
    /\ \/ ppc = "finished" /\ EffOrder = "signal_first" /\ ppc' = "half"
       \/ ppc = "half" /\ EffOrder = "queue_first" /\ ppc' = "done"
    /\ IF pout = "ans" THEN primDone' = TRUE /\ UNCHANGED primFailed
                       ELSE primFailed' = TRUE /\ UNCHANGED primDone
    /\ timerAtPub' = IF FirstPub THEN timerFired ELSE timerAtPub
    /\ H([a |-> "PrimSignal"])
    /\ UNCHANGED <<order, standby, timerMay, pout, spc, sout, chan, timerFired, ddlFired, ctxDone, cpc, nrecv,
                   result, secStarted, ctxAtStart>>

PrimSend ==
    /\ CallerIdle
    /\ \/ ppc = "finished" /\ EffOrder = "queue_first" /\ ppc' = "half"
       \/ ppc = "half" /\ EffOrder = "signal_first" /\ ppc' = "done"
    /\ chan' = Append(chan, IF pout = "ans" THEN "P" ELSE "nil")
    /\ timerAtPub' = IF FirstPub THEN timerFired ELSE timerAtPub
    /\ H([a |-> "PrimSend"])
    /\ UNCHANGED <<order, standby, timerMay, pout, spc, sout, primDone, primFailed, timerFired, ddlFired, ctxDone,
                   cpc, nrecv, result, secStarted, ctxAtStart>>

------------------------------------------------------------------------------
\* secondary goroutine

SecReasonEnabled(r) ==
    CASE r = "prim_done"   -> primDone
      [] r = "prim_failed" -> primFailed
      [] r = "timer"       -> timerFired
      [] r = "ctx"         -> ddlFired
      [] OTHER             -> FALSE

\* first select (only without always_standby): Go picks any ready case
SecWaitWake(r) ==
    /\ CallerIdle
    /\ spc = "wait" /\ r \in {"prim_done", "prim_failed", "timer"} /\ SecReasonEnabled(r)
    /\ spc' = IF r = "prim_done" THEN "end" ELSE "start"
    /\ H([a |-> "SecWaitWake", r |-> r])
    /\ UNCHANGED <<order, standby, timerMay, ppc, pout, sout, primDone, primFailed, chan, timerFired, ddlFired,
                   ctxDone, cpc, nrecv, result, timerAtPub, secStarted, ctxAtStart>>

SecExecStart ==
    /\ CallerIdle
    /\ spc = "start" /\ spc' = "exec" /\ secStarted' = TRUE
    /\ H([a |-> "SecExecStart"])
    /\ UNCHANGED <<order, standby, timerMay, ppc, pout, sout, primDone, primFailed, chan, timerFired, ddlFired,
                   ctxDone, cpc, nrecv, result, timerAtPub, ctxAtStart>>

SecFinish(o) ==
    /\ CallerIdle
    /\ spc = "exec" /\ sout' = o
    /\ spc' = IF standby /\ o = "ans" THEN "standby" ELSE "send"
    /\ H([a |-> "SecFinish", o |-> o])
    /\ UNCHANGED <<order, standby, timerMay, ppc, pout, primDone, primFailed, chan, timerFired, ddlFired, ctxDone,
                   cpc, nrecv, result, timerAtPub, secStarted, ctxAtStart>>

\* second select (always_standby and the secondary has an answer)
SecStandbyWake(r) ==
    /\ CallerIdle
    /\ spc = "standby" /\ r \in {"prim_done", "prim_failed", "timer", "ctx"} /\ SecReasonEnabled(r)
    /\ spc' = "send"
    /\ H([a |-> "SecStandbyWake", r |-> r])
    /\ UNCHANGED <<order, standby, timerMay, ppc, pout, sout, primDone, primFailed, chan, timerFired, ddlFired,
                   ctxDone, cpc, nrecv, result, timerAtPub, secStarted, ctxAtStart>>

SecSend ==
    /\ CallerIdle
    /\ spc = "send" /\ spc' = "end"
    /\ chan' = Append(chan, IF sout = "ans" THEN "S" ELSE "nil")
    /\ H([a |-> "SecSend"])
    /\ UNCHANGED <<order, standby, timerMay, ppc, pout, sout, primDone, primFailed, timerFired, ddlFired, ctxDone,
                   cpc, nrecv, result, timerAtPub, secStarted, ctxAtStart>>

------------------------------------------------------------------------------
\* timer, deadlines, caller

TimerFire ==
    /\ CallerIdle
    /\ timerMay /\ ~timerFired /\ timerFired' = TRUE
    /\ H([a |-> "TimerFire"])
    /\ UNCHANGED <<order, standby, timerMay, ppc, pout, spc, sout, primDone, primFailed, chan, ddlFired, ctxDone,
                   cpc, nrecv, result, timerAtPub, secStarted, ctxAtStart>>

\* the workers' own deadline (5 s or the caller's deadline); assumption: threshold < deadline
DeadlineFire ==
    /\ CallerIdle
    /\ EnvDeadline /\ timerFired /\ ~ddlFired /\ ddlFired' = TRUE
    /\ H([a |-> "DeadlineFire"])
    /\ UNCHANGED <<order, standby, timerMay, ppc, pout, spc, sout, primDone, primFailed, chan, timerFired, ctxDone,
                   cpc, nrecv, result, timerAtPub, secStarted, ctxAtStart>>

Cancel ==
    /\ CallerIdle
    /\ EnvCancel /\ ~ctxDone /\ (EagerCaller => cpc = "recv" /\ chan = <<>>) /\ ctxDone' = TRUE
    /\ H([a |-> "Cancel"])
    /\ UNCHANGED <<order, standby, timerMay, ppc, pout, spc, sout, primDone, primFailed, chan, timerFired, ddlFired,
                   cpc, nrecv, result, timerAtPub, secStarted, ctxAtStart>>

CallerRecv ==
    /\ cpc = "recv" /\ chan # <<>>
    /\ (LazyCaller => ppc = "done" /\ spc = "end")
    /\ chan' = Tail(chan)
    /\ IF Head(chan) # "nil"
         THEN cpc' = "done" /\ result' = Head(chan) /\ UNCHANGED nrecv
         ELSE /\ nrecv' = nrecv + 1
              /\ IF nrecv = 1 THEN cpc' = "done" /\ result' = "errFailed"
                              ELSE UNCHANGED <<cpc, result>>
    /\ UNCHANGED <<order, standby, timerMay, ppc, pout, spc, sout, primDone, primFailed, timerFired, ddlFired,
                   ctxDone, timerAtPub, secStarted, ctxAtStart, hist>>

CallerCtx ==
    /\ cpc = "recv" /\ ctxDone
    /\ (LazyCaller => ppc = "done" /\ spc = "end")
    /\ (EagerCaller => chan = <<>>)
    /\ cpc' = "done" /\ result' = "ctx"
    /\ UNCHANGED <<order, standby, timerMay, ppc, pout, spc, sout, primDone, primFailed, chan, timerFired, ddlFired,
                   ctxDone, nrecv, timerAtPub, secStarted, ctxAtStart, hist>>

Next ==
    \/ \E o \in Outcomes : PrimFinish(o) \/ SecFinish(o)
    \/ PrimSignal \/ PrimSend
    \/ \E r \in {"prim_done", "prim_failed", "timer", "ctx"} : SecWaitWake(r) \/ SecStandbyWake(r)
    \/ SecExecStart \/ SecSend
    \/ TimerFire \/ DeadlineFire \/ Cancel
    \/ CallerRecv \/ CallerCtx

Spec == Init /\ [][Next]_vars

\* the workers always finish (their contexts carry a deadline); timers fire; the caller runs
FairSpec == Spec /\ WF_vars(Next)

------------------------------------------------------------------------------
\* C20

Published == ppc \in {"half", "done"}

\* the primary's answer is returned whenever it produced one within the threshold
PrimaryWins ==
    (cpc = "done" /\ pout = "ans" /\ Published /\ ~timerAtPub /\ result # "ctx") => result = "P"

\* the secondary's answer is used (or even queued) only if the primary failed or the threshold passed
\* (a standby answer queued after the primary's own answer is harmless: FIFO, PrimaryWins covers the rest)
SecondaryOnlyWhen ==
    result = "S" => (primFailed \/ timerFired)

\* without always_standby the secondary is not even started while the primary is within the threshold
NotStarted ==
    (secStarted /\ ~standby) => (primFailed \/ timerFired)

\* an error is reported only if both fail
ErrOnlyIfBothFail ==
    result = "errFailed" => (pout \in {"none", "err"} /\ sout \in {"none", "err"})

\* a reported result is an answer one side really produced
ResultSound ==
    /\ result = "P" => pout = "ans"
    /\ result = "S" => sout = "ans"
    /\ result = "ctx" => ctxDone

\* respChan (cap 2) never blocks a worker: no goroutine is left behind
NoBlockedSender == Len(chan) <= 2

C20Inv == PrimaryWins /\ SecondaryOnlyWhen /\ NotStarted /\ ErrOnlyIfBothFail /\ ResultSound /\ NoBlockedSender

TypeOK ==
    /\ ppc \in {"exec", "finished", "half", "done"}
    /\ spc \in {"wait", "start", "exec", "standby", "send", "end"}
    /\ cpc \in {"recv", "done"}
    /\ result \in {"na", "P", "S", "errFailed", "ctx"}

\* liveness (FairSpec, no constraint): the call ends; it ends when the caller's context ends
Terminates == <>(cpc = "done")
CtxEnds == ctxDone ~> (cpc = "done")
WorkersEnd == <>(ppc = "done" /\ spc = "end")

------------------------------------------------------------------------------
\* behaviour export (leg B): print the schedule and the expected result of every complete run
AllDone == cpc = "done" /\ ppc = "done" /\ spc = "end" /\ chan = <<>>
AllDoneOrCtx == ppc = "done" /\ spc = "end" /\ cpc = "done"
Emit == AllDoneOrCtx =>
    PrintT(<<"BEH", ToJson([standby |-> standby, timerMay |-> timerMay, order |-> order, lazy |-> LazyCaller,
                            result |-> result, steps |-> hist])>>)

ViewNoHist == <<order, standby, timerMay, ppc, pout, spc, sout, primDone, primFailed, chan,
                timerFired, ddlFired, ctxDone, cpc, nrecv, result, timerAtPub, secStarted>>
=============================================================================
