\* extra (pkg/lru): generator of sequential behaviours with expected answers, callbacks and final order
SPECIFICATION Spec
CONSTANTS
  Keys = {1, 2, 3, 4}
  Maxes = {1, 2, 3}
  MaxOps = 14
  WithHist = TRUE
  CleanSets = {{2}, {1, 3}, {1, 2, 3, 4}}
INVARIANTS Emit
CHECK_DEADLOCK FALSE
