\* leg A (C07, conn_traditional.go): 2 callers x 2 calls, one cancel; design with the reader's re-check: invariant + silence liveness
SPECIFICATION FairSpec
CONSTANTS
  Callers = {0, 1}
  MaxCalls = 2
  MaxCancel = 1
  DEV = {}
  WithHist = FALSE
INVARIANTS TypeOK ArmedIsShortWhenOwed
VIEW ViewNoHist
CHECK_DEADLOCK FALSE
PROPERTIES SilenceEnds CloseEndsCalls
