SPECIFICATION TraceSpec
CONSTANTS
  Callers = {"c1", "c2", "c3"}
  Addrs = {1, 2, 3}
  MaxNow = 1000000
  MinInt = 1000
  WithHist = FALSE
  RETRY_AT_ONCE = FALSE
CONSTRAINT HWM
POSTCONDITION Accepted
CHECK_DEADLOCK FALSE
