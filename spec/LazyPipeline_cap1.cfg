\* leg A thorough: capacity 1 < queue limit 2 (early callers may be refused, then retry)
SPECIFICATION Spec
CONSTANTS
  NCalls = 3
  MaxDials = 3
  QueueLimit = 2
  ConnCap = 1
  Policy = "code"
  MaxRetry = 2
  AttemptBound = 4
  Dev = {}
  NoWgWait = FALSE
  ExactScan = TRUE
  MaxFaults = 1
  Kinds = {"stale", "dead"}
  CancelCalls = {}
  EnvTClose = FALSE
  OrderedStart = TRUE
  Eager = FALSE
  WithHist = FALSE
VIEW ViewNoHist
INVARIANTS TypeOK FailOnlyWhen AttemptsBounded ErrOnFault ClosedRejects CloseClosesAll QueueBound CapBound NoSpuriousRefusal NoLeak

CHECK_DEADLOCK FALSE
