\* leg C: traces of harness/drv_pipeline against LazyPipe.tla
SPECIFICATION TraceSpec
CONSTANTS
  Callers = {0, 1, 2, 3, 4, 5, 6, 7, 8, 9, 10, 11}
  Slots = {1, 2, 3, 4, 5, 6}
  QLimits = {1}
  CLimits = {1}
  MaxCalls = 1000000
  MaxDialFail = 1000000
  DEAD_ADMITS = FALSE
  DONE_EARLY = FALSE
  DOUBLE_COUNT = FALSE
CONSTRAINT HWM
POSTCONDITION Accepted
CHECK_DEADLOCK FALSE
