\* design-level window (not claimed, DESIGN C01 guard): a surplus message read while the idle connection is being handed to the next call is taken for that call's reply
SPECIFICATION Spec
CONSTANTS
  NCalls = 2
  MaxDials = 2
  Policy = "code"
  MaxRetry = 2
  AttemptBound = 4
  RandomSelect = FALSE
  LockInOnce = FALSE
  Dev = {}
  MaxFaults = 1
  Kinds = {"eof", "surplus"}
  OrderedStart = TRUE
  CancelCalls = {}
  EnvTClose = FALSE
  Coarse = FALSE
  Eager = FALSE
  WithHist = FALSE
VIEW ViewNoHist
INVARIANTS ErrOnFault

CHECK_DEADLOCK FALSE
