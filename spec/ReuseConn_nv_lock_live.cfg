\* non-vacuity D12 (liveness form): Close never returns
SPECIFICATION FairSpec
CONSTANTS
  NCalls = 2
  MaxDials = 2
  Policy = "code"
  MaxRetry = 2
  AttemptBound = 4
  RandomSelect = FALSE
  LockInOnce = TRUE
  Dev = {}
  MaxFaults = 1
  Kinds = {"eof"}
  OrderedStart = TRUE
  CancelCalls = {}
  EnvTClose = TRUE
  Coarse = TRUE
  Eager = FALSE
  WithHist = FALSE
VIEW ViewNoHist
INVARIANTS TypeOK
PROPERTIES Released
CHECK_DEADLOCK FALSE
