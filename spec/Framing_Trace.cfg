SPECIFICATION TraceSpec
CONSTANTS
  B = 256
  MIN = 12
  Writers = {}
  Lens = {}
  MinAccepts = {TRUE}
  MaxCut = 0
  SplitWrite = FALSE
  NoMaxCheck = FALSE
  NoMinCheck = FALSE
  ResumeFresh = FALSE
  NoReadFull = FALSE
  WithHist = FALSE
  Export = FALSE
CONSTRAINT HWM
POSTCONDITION Accepted
CHECK_DEADLOCK FALSE
