---------------------------- MODULE ReuseConn ----------------------------
(***************************************************************************)
(* pkg/upstream/transport/reuse.go : ReuseConnTransport / reusableConn     *)
(*                                                                         *)
(* One action per critical section / boundary call of the code:            *)
(*  caller (ExchangeContext loop)                                          *)
(*    Start, GetIdle (getIdleConn under t.m; no idle conn => spawn the     *)
(*    dial goroutine of getNewConn), LeaveCtx / LeaveClosed (select in     *)
(*    getNewConn), Install (waitingResp under c.m), ArmQ (SetDeadline      *)
(*    6 s), WriteReq / WriteOk / WriteErr (c.c.Write), TakeReply /         *)
(*    SeeClose / SeeCtx (final select), Retry / Fail (retry decision)      *)
(*  dial goroutine   DialInvoke, DialOk / DialErr (dialFunc returns),      *)
(*    Register (newReusableConn under t.m), HandOver (dialChan<-),         *)
(*    Abandon (callCtx.Done arm: setIdle)                                  *)
(*  reader (readLoop) ServerReply (a reply is read), Take (waitingResp     *)
(*    under c.m; none => close "unexpected response"), ArmIdle             *)
(*    (SetReadDeadline idle), SetIdle (under t.m), Hand (1-buffered chan), *)
(*    ReadFail (error / EOF / short frame / deadline)                      *)
(*  closeWithErr     CweA / CweB  (sync.Once + t.m; order = LockInOnce)    *)
(*  transport Close  TCloseStart, TCloseLock, TCloseOne, TCloseWake,       *)
(*    TCloseEnd  (t.m held from TCloseLock to TCloseEnd)                   *)
(*  environment      Kill(x, kind), Cancel(c), DialOk/DialErr, WriteOk/Err *)
(*                                                                         *)
(* The retry decision is a CONSTANT policy: "code" = reuse.go's            *)
(* (!isNewConn && retry <= MaxRetry), "any" = free (trace validation: the  *)
(* contract is the invariants, not the code's constants).                  *)
(* Deviation switches: RandomSelect (D2: closeNotify arm may win over a    *)
(* delivered reply), LockInOnce (D15: closeWithErr takes t.m inside        *)
(* closeOnce.Do while Close holds t.m and calls closeOnce.Do).             *)
(***************************************************************************)
EXTENDS Integers, Sequences, FiniteSets, TLC, Json

CONSTANTS
    NCalls,        \* calls are 1..NCalls
    MaxDials,      \* dial ids = connection ids 1..MaxDials
    Policy,        \* "code" | "any" | "noretry" (non-vacuity)
    MaxRetry,      \* the code's constant (2)
    AttemptBound,  \* the contract's bound on attempts / connections per query (4)
    RandomSelect,  \* deviation D2
    LockInOnce,    \* deviation D15 (pinned order)
    Dev,           \* set of further deviation switches (non-vacuity configs only), {} in every real config
    MaxFaults,     \* bound on Kill actions
    Kinds,         \* subset of {"eof", "silent", "reset"}
    OrderedStart,  \* TRUE: calls start in the order 1, 2, ... (symmetry breaking, leg A only)
    CancelCalls,   \* set of calls whose context may be cancelled
    EnvTClose,     \* transport Close may be called
    Eager,         \* TRUE: the environment moves only when the code cannot (leg B generator: what a controller that
                   \* waits for the code to settle can force)
    Coarse,        \* TRUE: invisible local steps run at once (hand-made partial-order reduction, leg A only)
    WithHist

Calls == 1..NCalls
ConnIds == 1..MaxDials
FREE == 0
DONE == -1
CLOSER == -2
RDR == -3           \* reader of that connection
None == <<>>

VARIABLES
    \* calls
    pc, att, isNew, cur, slot, ctxDone, res, mydial,
    \* call history
    writes, used, delivered, failOK, startedClosed, val, dialedFor, wok, shared,
    \* connections
    health, closed, once, waiting, armed, srvq, owe,
    \* readers
    rpc, rmsg, rw,
    \* transport
    tclosed, tm, conns, idle, tctx, cl,
    \* dialers
    nd, dl, spawn,
    \* env
    panic, unexp, hist

callVars == <<pc, att, isNew, cur, slot, ctxDone, res, mydial>>
chistVars == <<writes, used, delivered, failOK, startedClosed, val, dialedFor, wok, shared>>
connVars == <<health, closed, once, waiting, armed, srvq, owe>>
rdrVars == <<rpc, rmsg, rw>>
tVars == <<tclosed, tm, conns, idle, tctx, cl>>
dialVars == <<nd, dl, spawn>>
vars == <<callVars, chistVars, connVars, rdrVars, tVars, dialVars, panic, unexp, hist>>

H(e) == hist' = IF WithHist THEN Append(hist, e) ELSE hist
NoH == UNCHANGED hist

Init ==
    /\ pc = [c \in Calls |-> "na"] /\ att = [c \in Calls |-> 0]
    /\ isNew = [c \in Calls |-> FALSE] /\ cur = [c \in Calls |-> 0]
    /\ slot = [c \in Calls |-> None] /\ ctxDone = [c \in Calls |-> FALSE]
    /\ res = [c \in Calls |-> "na"] /\ mydial = [c \in Calls |-> 0]
    /\ writes = [c \in Calls |-> 0] /\ used = [c \in Calls |-> {}]
    /\ delivered = [c \in Calls |-> FALSE] /\ failOK = [c \in Calls |-> TRUE]
    /\ startedClosed = [c \in Calls |-> FALSE] /\ val = [c \in Calls |-> None]
    /\ dialedFor = [c \in Calls |-> 0] /\ wok = [c \in Calls |-> FALSE] /\ shared = [c \in Calls |-> FALSE]
    /\ health = [x \in ConnIds |-> "na"] /\ closed = [x \in ConnIds |-> FALSE]
    /\ once = [x \in ConnIds |-> FREE] /\ waiting = [x \in ConnIds |-> None]
    /\ armed = [x \in ConnIds |-> "none"] /\ srvq = [x \in ConnIds |-> None]
    /\ owe = [x \in ConnIds |-> FALSE]
    /\ rpc = [x \in ConnIds |-> "off"] /\ rmsg = [x \in ConnIds |-> None] /\ rw = [x \in ConnIds |-> None]
    /\ tclosed = FALSE /\ tm = "free" /\ conns = {} /\ idle = {} /\ tctx = FALSE /\ cl = "idle"
    /\ nd = 0 /\ dl = [d \in ConnIds |-> [owner |-> 0, st |-> "unused"]] /\ spawn = {}
    /\ panic = FALSE /\ unexp = FALSE /\ hist = <<>>

Tok(c) == <<c, att[c]>>
SetIdleEff(x) == idle' = IF ~tclosed /\ x \in conns THEN idle \cup {x} ELSE idle

\* Local steps: they touch only state no other process reads at that moment (waitingResp of a connection
\* the caller owns, the deadline register, the caller's own retry decision, allocation of a dial id).
\* With Coarse they are executed before anything else moves; every other action is guarded by Calm.
UrgentCalls == {c \in Calls : pc[c] \in {"install", "arm", "decide"} \/ c \in spawn}
UrgentRdrs == {x \in ConnIds : rpc[x] \in {"got", "armIdle"}}
Calm == ~Coarse \/ (UrgentCalls = {} /\ UrgentRdrs = {})
MyTurnC(c) == ~Coarse \/ (c \in UrgentCalls /\ \A d \in UrgentCalls : c <= d)
MyTurnR(x) == ~Coarse \/ (UrgentCalls = {} /\ x \in UrgentRdrs /\ \A y \in UrgentRdrs : x <= y)

------------------------------------------------------------------------------
\* caller

Start(c) ==
    /\ Calm
    /\ pc[c] = "na" /\ pc' = [pc EXCEPT ![c] = "get"]
    /\ OrderedStart => \A d \in Calls : d < c => pc[d] # "na"
    /\ startedClosed' = [startedClosed EXCEPT ![c] = (cl = "done")]
    /\ H([a |-> "Start", c |-> c])
    /\ UNCHANGED <<att, isNew, cur, slot, ctxDone, res, mydial, writes, used, delivered, failOK, val, dialedFor, wok, shared,
                   connVars, rdrVars, tVars, dialVars, panic, unexp>>

\* result classes: "ok", "ctx", "tclosed", "other"
Finish(c, r) ==
    /\ pc' = [pc EXCEPT ![c] = "done"] /\ res' = [res EXCEPT ![c] = r]

FailNowOK(c) == isNew[c] \/ ctxDone[c] \/ tclosed \/ att[c] >= 2

GetIdle(c) ==
    /\ Calm
    /\ pc[c] = "get" /\ tm = "free"
    /\ att' = [att EXCEPT ![c] = @ + 1]
    /\ IF tclosed /\ "accept_after_close" \notin Dev
         THEN /\ Finish(c, "tclosed")
              /\ failOK' = [failOK EXCEPT ![c] = TRUE]
              /\ UNCHANGED <<isNew, cur, slot, mydial, idle, spawn, dialedFor, shared>>
         ELSE IF idle # {}
           THEN /\ \E x \in idle :
                     /\ cur' = [cur EXCEPT ![c] = x] /\ idle' = IF "idle_kept" \in Dev THEN idle ELSE idle \ {x}
                     \* another call whose reply is still being handed over now shares its connection
                     /\ LET others == {d \in Calls : d # c /\ cur[d] = x /\ pc[d] \in {"writing", "wait", "cweA", "cweB"}} IN
                          shared' = [d \in Calls |-> IF d = c THEN others # {} ELSE shared[d] \/ d \in others]
                /\ isNew' = [isNew EXCEPT ![c] = FALSE]
                /\ pc' = [pc EXCEPT ![c] = "install"]
                /\ UNCHANGED <<res, slot, mydial, spawn, failOK, dialedFor>>
           ELSE /\ isNew' = [isNew EXCEPT ![c] = TRUE]
                /\ spawn' = spawn \cup {c}
                /\ mydial' = [mydial EXCEPT ![c] = 0]
                /\ cur' = [cur EXCEPT ![c] = 0]
                /\ pc' = [pc EXCEPT ![c] = "dialWait"]
                /\ dialedFor' = [dialedFor EXCEPT ![c] = @ + 1]
                /\ UNCHANGED <<res, slot, idle, failOK, shared>>
    /\ NoH
    /\ UNCHANGED <<ctxDone, writes, used, delivered, startedClosed, val, wok, connVars, rdrVars,
                   tclosed, tm, conns, tctx, cl, nd, dl, panic, unexp>>

\* select in getNewConn: ctx arm / transport ctx arm (both return directly = failure of a new conn)
LeaveCtx(c) ==
    /\ Calm
    /\ pc[c] = "dialWait" /\ ctxDone[c]
    /\ Finish(c, "ctx") /\ failOK' = [failOK EXCEPT ![c] = TRUE]
    /\ NoH
    /\ UNCHANGED <<att, isNew, cur, slot, ctxDone, mydial, writes, used, delivered, startedClosed, val, dialedFor, wok, shared,
                   connVars, rdrVars, tVars, dialVars, panic, unexp>>

LeaveClosed(c) ==
    /\ Calm
    /\ pc[c] = "dialWait" /\ tctx
    /\ Finish(c, "tclosed") /\ failOK' = [failOK EXCEPT ![c] = TRUE]
    /\ NoH
    /\ UNCHANGED <<att, isNew, cur, slot, ctxDone, mydial, writes, used, delivered, startedClosed, val, dialedFor, wok, shared,
                   connVars, rdrVars, tVars, dialVars, panic, unexp>>

Install(c) ==
    /\ MyTurnC(c)
    /\ pc[c] = "install"
    /\ LET x == cur[c] IN
         /\ panic' = (panic \/ waiting[x] # None) /\ UNCHANGED unexp
         /\ waiting' = [waiting EXCEPT ![x] = Tok(c)]
    /\ slot' = [slot EXCEPT ![c] = None]
    /\ delivered' = [delivered EXCEPT ![c] = FALSE] /\ wok' = [wok EXCEPT ![c] = FALSE] /\ UNCHANGED shared
    /\ pc' = [pc EXCEPT ![c] = "arm"]
    /\ NoH
    /\ UNCHANGED <<att, isNew, cur, ctxDone, res, mydial, writes, used, failOK, startedClosed, val, dialedFor,
                   health, closed, once, armed, srvq, owe, rdrVars, tVars, dialVars>>

\* k = kind of the deadline the code arms (the design arms the 6 s query timeout)
ArmQ(c, k) ==
    /\ MyTurnC(c)
    /\ pc[c] = "arm"
    /\ armed' = [armed EXCEPT ![cur[c]] = k]
    /\ pc' = [pc EXCEPT ![c] = "write"]
    /\ H([a |-> "SetDeadline", x |-> cur[c], k |-> k])
    /\ UNCHANGED <<att, isNew, cur, slot, ctxDone, res, mydial, chistVars,
                   health, closed, once, waiting, srvq, owe, rdrVars, tVars, dialVars, panic, unexp>>

\* Write is called: the bytes reach a healthy server now (it may answer before Write returns)
WriteReq(c) ==
    /\ Calm
    /\ pc[c] = "write"
    /\ LET x == cur[c] IN
         /\ writes' = [writes EXCEPT ![c] = @ + 1]
         /\ used' = [used EXCEPT ![c] = @ \cup {x}]
         /\ owe' = [owe EXCEPT ![x] = TRUE]
         /\ panic' = (panic \/ srvq[x] # None) /\ UNCHANGED unexp   \* two unanswered queries on one connection
         /\ srvq' = IF health[x] = "ok" /\ ~closed[x] THEN [srvq EXCEPT ![x] = Tok(c)] ELSE srvq
         /\ H([a |-> "WriteReq", x |-> x, c |-> c])
    /\ pc' = [pc EXCEPT ![c] = "writing"]
    /\ UNCHANGED <<att, isNew, cur, slot, ctxDone, res, mydial, delivered, failOK, startedClosed, val, dialedFor, wok, shared,
                   health, closed, once, waiting, armed, rdrVars, tVars, dialVars>>

WriteOk(c) ==
    /\ Calm
    \* (a write that was pending when the connection got closed may still have left: it may return nil)
    /\ pc[c] = "writing" /\ health[cur[c]] \in {"ok", "silent", "eof"}
    /\ pc' = [pc EXCEPT ![c] = "wait"] /\ wok' = [wok EXCEPT ![c] = TRUE] /\ UNCHANGED shared
    /\ H([a |-> "WriteRet", x |-> cur[c], c |-> c, ok |-> TRUE])
    /\ UNCHANGED <<att, isNew, cur, slot, ctxDone, res, mydial, writes, used, delivered, failOK, startedClosed, val, dialedFor, connVars, rdrVars, tVars, dialVars, panic, unexp>>

WriteErr(c) ==
    /\ Calm
    /\ pc[c] = "writing" /\ (closed[cur[c]] \/ health[cur[c]] \in {"silent", "eof", "reset"})
    /\ pc' = [pc EXCEPT ![c] = "cweA"]
    /\ H([a |-> "WriteRet", x |-> cur[c], c |-> c, ok |-> FALSE])
    /\ UNCHANGED <<att, isNew, cur, slot, ctxDone, res, mydial, chistVars, connVars, rdrVars, tVars, dialVars, panic, unexp>>

\* final select
TakeReply(c) ==
    /\ Calm
    /\ pc[c] = "wait" /\ slot[c] # None
    /\ Finish(c, "ok") /\ val' = [val EXCEPT ![c] = slot[c]]
    /\ NoH
    /\ UNCHANGED <<att, isNew, cur, slot, ctxDone, mydial, writes, used, delivered, failOK, startedClosed, dialedFor, wok, shared,
                   connVars, rdrVars, tVars, dialVars, panic, unexp>>

SeeClose(c) ==
    /\ Calm
    /\ pc[c] = "wait" /\ closed[cur[c]] /\ "no_close_wake" \notin Dev
    /\ RandomSelect \/ slot[c] = None
    /\ IF "ok_on_close" \in Dev THEN Finish(c, "ok")
                              ELSE pc' = [pc EXCEPT ![c] = "decide"] /\ res' = [res EXCEPT ![c] = "other"]
    /\ NoH
    /\ UNCHANGED <<att, isNew, cur, slot, ctxDone, mydial, chistVars, connVars, rdrVars, tVars, dialVars, panic, unexp>>

\* deviations (non-vacuity): "ctx_sets_idle" = the abandoned connection goes back to the idle pool although the
\* server still owes the reply; "ctx_clears_waiting" = waitingResp is cleared without checking whose it is
SeeCtx(c) ==
    /\ Calm
    /\ pc[c] = "wait" /\ ctxDone[c]
    /\ pc' = [pc EXCEPT ![c] = "decide"]
    /\ res' = [res EXCEPT ![c] = "ctx"]
    /\ LET x == cur[c] IN
         /\ waiting' = IF "ctx_clears_waiting" \in Dev \/ ("ctx_sets_idle" \in Dev /\ waiting[x] = Tok(c))
                          THEN [waiting EXCEPT ![x] = None] ELSE waiting
         /\ IF "ctx_sets_idle" \in Dev THEN tm = "free" /\ SetIdleEff(x) ELSE UNCHANGED idle
    /\ NoH
    /\ UNCHANGED <<att, isNew, cur, slot, ctxDone, mydial, chistVars, health, closed, once, armed, srvq, owe,
                   rdrVars, tclosed, tm, conns, tctx, cl, dialVars, panic, unexp>>

MayRetry(c) == CASE Policy = "code" -> ~isNew[c] /\ att[c] <= MaxRetry + 1
                 [] Policy = "noretry" -> FALSE
                 [] OTHER -> att[c] <= 6
MayFail(c) == IF Policy = "code" THEN ~(~isNew[c] /\ att[c] <= MaxRetry + 1) ELSE TRUE

Retry(c) ==
    /\ MyTurnC(c)
    /\ pc[c] = "decide" /\ MayRetry(c)
    /\ pc' = [pc EXCEPT ![c] = "get"] /\ res' = [res EXCEPT ![c] = "na"]
    /\ NoH
    /\ UNCHANGED <<att, isNew, cur, slot, ctxDone, mydial, chistVars, connVars, rdrVars, tVars, dialVars, panic, unexp>>

Fail(c) ==
    /\ MyTurnC(c)
    /\ pc[c] = "decide" /\ MayFail(c)
    /\ pc' = [pc EXCEPT ![c] = "done"]
    /\ failOK' = [failOK EXCEPT ![c] = FailNowOK(c)]
    /\ NoH
    /\ UNCHANGED <<att, isNew, cur, slot, ctxDone, res, mydial, writes, used, delivered, startedClosed, val, dialedFor, wok, shared,
                   connVars, rdrVars, tVars, dialVars, panic, unexp>>

------------------------------------------------------------------------------
\* closeWithErr(x) by actor a (a call c closing cur[c], or the reader of x)
\* pinned (LockInOnce): A = enter closeOnce.Do, B = t.m section + close.  repaired: A = t.m section, B = once + close.

CweA_eff(a, x) ==
    IF LockInOnce
      THEN /\ once[x] \in {FREE, DONE}
           /\ once' = [once EXCEPT ![x] = IF @ = FREE THEN a ELSE @]
           /\ UNCHANGED <<conns, idle>>
      ELSE /\ tm = "free"
           /\ conns' = conns \ {x} /\ idle' = IF "close_keeps_idle" \in Dev THEN idle ELSE idle \ {x}
           /\ UNCHANGED once

\* returns TRUE in `skipB` position when the body is not ours to run
CweB_eff(a, x) ==
    IF LockInOnce
      THEN IF once[x] = a
             THEN /\ tm = "free"
                  /\ conns' = conns \ {x} /\ idle' = idle \ {x}
                  /\ closed' = [closed EXCEPT ![x] = TRUE]
                  /\ once' = [once EXCEPT ![x] = DONE]
             ELSE /\ once[x] = DONE
                  /\ UNCHANGED <<conns, idle, closed, once>>
      ELSE /\ once[x] \in {FREE, DONE}
           /\ closed' = [closed EXCEPT ![x] = TRUE]
           /\ once' = [once EXCEPT ![x] = DONE]
           /\ UNCHANGED <<conns, idle>>

CweWillClose(a, x) == IF LockInOnce THEN once[x] = a ELSE once[x] = FREE

CallCweA(c) ==
    /\ Calm
    /\ pc[c] = "cweA" /\ CweA_eff(c, cur[c])
    /\ pc' = [pc EXCEPT ![c] = "cweB"]
    /\ NoH
    /\ UNCHANGED <<att, isNew, cur, slot, ctxDone, res, mydial, chistVars,
                   health, closed, waiting, armed, srvq, owe, rdrVars, tclosed, tm, tctx, cl, dialVars, panic, unexp>>

CallCweB(c) ==
    /\ Calm
    /\ pc[c] = "cweB" /\ CweB_eff(c, cur[c])
    /\ pc' = [pc EXCEPT ![c] = "decide"] /\ res' = [res EXCEPT ![c] = "other"]
    /\ IF CweWillClose(c, cur[c]) THEN H([a |-> "CloseReq", x |-> cur[c]]) ELSE NoH
    /\ UNCHANGED <<att, isNew, cur, slot, ctxDone, mydial, chistVars,
                   health, waiting, armed, srvq, owe, rdrVars, tclosed, tm, tctx, cl, dialVars, panic, unexp>>

RdrCweA(x) ==
    /\ Calm
    /\ rpc[x] = "cweA" /\ CweA_eff(RDR, x)
    /\ rpc' = [rpc EXCEPT ![x] = "cweB"]
    /\ NoH
    /\ UNCHANGED <<callVars, chistVars, health, closed, waiting, armed, srvq, owe, rmsg, rw,
                   tclosed, tm, tctx, cl, dialVars, panic, unexp>>

RdrCweB(x) ==
    /\ Calm
    /\ rpc[x] = "cweB" /\ CweB_eff(RDR, x)
    /\ rpc' = [rpc EXCEPT ![x] = "dead"]
    /\ IF CweWillClose(RDR, x) THEN H([a |-> "CloseReq", x |-> x]) ELSE NoH
    /\ UNCHANGED <<callVars, chistVars, health, waiting, armed, srvq, owe, rmsg, rw,
                   tclosed, tm, tctx, cl, dialVars, panic, unexp>>

------------------------------------------------------------------------------
\* reader

ServerReply(x) ==
    /\ Calm
    /\ rpc[x] = "reading" /\ ~closed[x] /\ health[x] = "ok" /\ srvq[x] # None
    /\ rmsg' = [rmsg EXCEPT ![x] = srvq[x]] /\ srvq' = [srvq EXCEPT ![x] = None]
    /\ owe' = [owe EXCEPT ![x] = FALSE]
    /\ rpc' = [rpc EXCEPT ![x] = "got"]
    /\ LET c == srvq[x][1] IN
         delivered' = [delivered EXCEPT ![c] = @ \/ (srvq[x] = Tok(c) /\ pc[c] \in {"writing", "wait"} /\ cur[c] = x)]
    /\ H([a |-> "ReadRet", x |-> x, k |-> "reply", c |-> srvq[x][1], n |-> srvq[x][2]])
    /\ UNCHANGED <<callVars, writes, used, failOK, startedClosed, val, dialedFor, wok, shared,
                   health, closed, once, waiting, armed, rw, tVars, dialVars, panic, unexp>>

Take(x) ==
    /\ MyTurnR(x)
    /\ rpc[x] = "got"
    /\ rw' = [rw EXCEPT ![x] = waiting[x]] /\ waiting' = [waiting EXCEPT ![x] = None]
    /\ rpc' = [rpc EXCEPT ![x] = IF waiting[x] = None THEN "cweA" ELSE "armIdle"]
    \* a reply to the query of a call that is still waiting for it finds no waiter: it would be dropped as
    \* 'unexpected response'
    /\ unexp' = (unexp \/ (waiting[x] = None /\ rmsg[x] # <<0, 0>> /\
                            LET c == rmsg[x][1] IN rmsg[x] = Tok(c) /\ cur[c] = x /\ pc[c] \in {"writing", "wait"} /\ ~ctxDone[c]))
    /\ NoH
    /\ UNCHANGED <<callVars, chistVars, health, closed, once, armed, srvq, owe, rmsg, tVars, dialVars, panic>>

\* Contract freedom (Policy "any" only): the code may stop expecting the reply of an attempt that has ended
\* (cancelled); a late reply then closes the connection as 'unexpected response' instead of re-pooling it.
Forget(x) ==
    /\ Policy = "any" /\ waiting[x] # None
    /\ LET c == waiting[x][1] IN ~(waiting[x] = Tok(c) /\ pc[c] \in {"arm", "write", "writing", "wait", "cweA", "cweB"})
    /\ waiting' = [waiting EXCEPT ![x] = None]
    /\ NoH
    /\ UNCHANGED <<callVars, chistVars, health, closed, once, armed, srvq, owe, rdrVars, tVars, dialVars, panic, unexp>>

ArmIdle(x, k) ==
    /\ MyTurnR(x)
    /\ rpc[x] = "armIdle"
    /\ armed' = IF "idle_before_arm" \in Dev THEN armed ELSE [armed EXCEPT ![x] = k]
    /\ rpc' = [rpc EXCEPT ![x] = "setIdle"]
    /\ H([a |-> "SetReadDeadline", x |-> x, k |-> k])
    /\ UNCHANGED <<callVars, chistVars, health, closed, once, waiting, srvq, owe, rmsg, rw, tVars, dialVars, panic, unexp>>


SetIdle(x) ==
    /\ Calm
    /\ rpc[x] = "setIdle" /\ tm = "free"
    /\ SetIdleEff(x)
    /\ rpc' = [rpc EXCEPT ![x] = "hand"]
    /\ NoH
    /\ UNCHANGED <<callVars, chistVars, connVars, rmsg, rw, tclosed, tm, conns, tctx, cl, dialVars, panic, unexp>>

Hand(x) ==
    /\ Calm
    /\ rpc[x] = "hand"
    /\ LET c == rw[x][1] IN
         slot' = IF rw[x] = Tok(c) /\ pc[c] \notin {"na", "done", "get", "dialWait", "install"}
                   THEN [slot EXCEPT ![c] = rmsg[x]] ELSE slot
    /\ rpc' = [rpc EXCEPT ![x] = "reading"]
    /\ armed' = IF "idle_before_arm" \in Dev THEN [armed EXCEPT ![x] = "idle"] ELSE armed
    /\ NoH
    /\ UNCHANGED <<pc, att, isNew, cur, ctxDone, res, mydial, chistVars, health, closed, once, waiting, srvq, owe,
                   rmsg, rw, tVars, dialVars, panic, unexp>>

\* C01: a message arrives although no query is outstanding on an idle pooled connection (enabled by "surplus" \in Kinds).
\* readLoop finds no waiter and closes the connection ("unexpected response").
Surplus(x) ==
    /\ Calm
    /\ "surplus" \in Kinds /\ rpc[x] = "reading" /\ ~closed[x] /\ health[x] = "ok" /\ srvq[x] = None /\ x \in idle
    /\ rmsg' = [rmsg EXCEPT ![x] = <<0, 0>>]
    /\ rpc' = [rpc EXCEPT ![x] = "got"]
    /\ H([a |-> "ReadRet", x |-> x, k |-> "surplus"])
    /\ UNCHANGED <<callVars, chistVars, connVars, rw, tVars, dialVars, panic, unexp>>

\* k: "err" (EOF, reset, short frame, garbage length ...) needs a dead peer or a locally closed conn;
\*    "timeout" needs an armed deadline (virtual time: any armed deadline may expire)
ReadFail(x, k) ==
    /\ Calm
    /\ rpc[x] = "reading"
    /\ \/ k = "err" /\ (closed[x] \/ health[x] \in {"eof", "reset"})
       \/ k = "timeout" /\ armed[x] # "none" /\ ~closed[x]
    /\ rpc' = [rpc EXCEPT ![x] = "cweA"]
    /\ H([a |-> "ReadRet", x |-> x, k |-> k, armed |-> armed[x]])
    /\ UNCHANGED <<callVars, chistVars, connVars, rmsg, rw, tVars, dialVars, panic, unexp>>

------------------------------------------------------------------------------
\* dial goroutine of getNewConn

DialInvoke(c) ==
    /\ MyTurnC(c)
    /\ c \in spawn /\ nd < MaxDials
    /\ nd' = nd + 1 /\ spawn' = spawn \ {c}
    /\ dl' = [dl EXCEPT ![nd + 1] = [owner |-> c, st |-> "dialing"]]
    /\ mydial' = IF pc[c] = "dialWait" /\ mydial[c] = 0 THEN [mydial EXCEPT ![c] = nd + 1] ELSE mydial
    /\ H([a |-> "Dial", d |-> nd + 1])
    /\ UNCHANGED <<pc, att, isNew, cur, slot, ctxDone, res, chistVars, connVars, rdrVars, tVars, panic, unexp>>

DialOk(d) ==
    /\ Calm
    /\ dl[d].st = "dialing"
    /\ dl' = [dl EXCEPT ![d].st = "ok"]
    /\ health' = [health EXCEPT ![d] = "ok"]
    /\ H([a |-> "DialRet", d |-> d, ok |-> TRUE])
    /\ UNCHANGED <<callVars, chistVars, closed, once, waiting, armed, srvq, owe, rdrVars, tVars, nd, spawn, panic, unexp>>

\* dial error, or a hanging dial ended by the dial timeout / the transport's context
DialErr(d) ==
    /\ Calm
    /\ dl[d].st = "dialing"
    /\ dl' = [dl EXCEPT ![d].st = "offerErr"]
    /\ H([a |-> "DialRet", d |-> d, ok |-> FALSE])
    /\ UNCHANGED <<callVars, chistVars, connVars, rdrVars, tVars, nd, spawn, panic, unexp>>

Register(d) ==
    /\ Calm
    /\ dl[d].st = "ok" /\ tm = "free"
    /\ IF tclosed
         THEN /\ closed' = [closed EXCEPT ![d] = TRUE] /\ once' = [once EXCEPT ![d] = DONE]
              /\ dl' = [dl EXCEPT ![d].st = "offerClosed"]
              /\ H([a |-> "CloseReq", x |-> d])
              /\ UNCHANGED <<conns, rpc>>
         ELSE /\ conns' = conns \cup {d}
              /\ rpc' = [rpc EXCEPT ![d] = "reading"]
              /\ dl' = [dl EXCEPT ![d].st = "offer"]
              /\ NoH
              /\ UNCHANGED <<closed, once>>
    /\ UNCHANGED <<callVars, chistVars, health, waiting, armed, srvq, owe, rmsg, rw,
                   tclosed, tm, idle, tctx, cl, nd, spawn, panic, unexp>>

OwnerWaits(d) == LET c == dl[d].owner IN pc[c] = "dialWait" /\ mydial[c] = d

HandOver(d) ==
    /\ Calm
    /\ dl[d].st \in {"offer", "offerErr", "offerClosed"} /\ OwnerWaits(d)
    /\ LET c == dl[d].owner IN
         IF dl[d].st = "offer"
           THEN /\ cur' = [cur EXCEPT ![c] = d] /\ pc' = [pc EXCEPT ![c] = "install"]
                /\ UNCHANGED <<res, failOK>>
           ELSE /\ Finish(c, IF dl[d].st = "offerClosed" THEN "tclosed" ELSE "other")
                /\ failOK' = [failOK EXCEPT ![c] = TRUE]
                /\ UNCHANGED cur
    /\ dl' = [dl EXCEPT ![d].st = "done"]
    /\ NoH
    /\ UNCHANGED <<att, isNew, slot, ctxDone, mydial, writes, used, delivered, startedClosed, val, dialedFor, wok, shared,
                   connVars, rdrVars, tVars, nd, spawn, panic, unexp>>

\* callCtx.Done arm: the caller has gone (or its ctx is done): a dialled connection goes to the idle pool
Abandon(d) ==
    /\ Calm
    /\ dl[d].st \in {"offer", "offerErr", "offerClosed"}
    /\ ~OwnerWaits(d) \/ ctxDone[dl[d].owner]
    /\ IF dl[d].st = "offer" THEN tm = "free" /\ SetIdleEff(d) ELSE UNCHANGED idle
    /\ dl' = [dl EXCEPT ![d].st = "done"]
    /\ NoH
    /\ UNCHANGED <<callVars, chistVars, connVars, rdrVars, tclosed, tm, conns, tctx, cl, nd, spawn, panic, unexp>>

------------------------------------------------------------------------------
\* transport Close (holds t.m from TCloseLock to TCloseEnd)

TCloseStart ==
    /\ Calm
    /\ EnvTClose /\ cl = "idle" /\ cl' = "start"
    /\ H([a |-> "TClose"])
    /\ UNCHANGED <<callVars, chistVars, connVars, rdrVars, tclosed, tm, conns, idle, tctx, dialVars, panic, unexp>>

TCloseLock ==
    /\ Calm
    /\ cl = "start" /\ tm = "free"
    /\ tclosed' = TRUE /\ tm' = "closer" /\ cl' = "locked"
    /\ NoH
    /\ UNCHANGED <<callVars, chistVars, connVars, rdrVars, conns, idle, tctx, dialVars, panic, unexp>>

\* one iteration: delete from both maps, closeWithErrByTransport (closeOnce.Do: blocks while another actor is inside)
TCloseOne(x) ==
    /\ Calm
    /\ cl = "locked" /\ x \in conns
    /\ once[x] \in {FREE, DONE}
    /\ conns' = conns \ {x} /\ idle' = idle \ {x}
    /\ closed' = [closed EXCEPT ![x] = TRUE] /\ once' = [once EXCEPT ![x] = DONE]
    /\ IF once[x] = FREE THEN H([a |-> "CloseReq", x |-> x]) ELSE NoH
    /\ UNCHANGED <<callVars, chistVars, health, waiting, armed, srvq, owe, rdrVars, tclosed, tm, tctx, cl,
                   dialVars, panic, unexp>>

TCloseEnd ==
    /\ Calm
    /\ cl = "locked" /\ (conns = {} \/ "close_skips" \in Dev)
    /\ tctx' = TRUE /\ tm' = "free" /\ cl' = "ret"
    /\ NoH
    /\ UNCHANGED <<callVars, chistVars, connVars, rdrVars, tclosed, conns, idle, dialVars, panic, unexp>>

\* Close has returned (observed by the controller)
TCloseObs ==
    /\ Calm
    /\ cl = "ret" /\ cl' = "done"
    /\ H([a |-> "TCloseRet"])
    /\ UNCHANGED <<callVars, chistVars, connVars, rdrVars, tclosed, tm, conns, idle, tctx, dialVars, panic, unexp>>

------------------------------------------------------------------------------
\* environment

Kill(x, k) ==
    /\ Calm
    /\ health[x] = "ok" /\ ~closed[x]
    /\ Cardinality({y \in ConnIds : health[y] \notin {"na", "ok"}}) < MaxFaults
    /\ health' = [health EXCEPT ![x] = k]
    /\ H([a |-> "Kill", x |-> x, k |-> k])
    /\ UNCHANGED <<callVars, chistVars, closed, once, waiting, armed, srvq, owe, rdrVars, tVars, dialVars, panic, unexp>>

Cancel(c) ==
    /\ Calm
    /\ c \in CancelCalls /\ ~ctxDone[c] /\ pc[c] \notin {"na", "done"}
    /\ ctxDone' = [ctxDone EXCEPT ![c] = TRUE]
    /\ H([a |-> "Cancel", c |-> c])
    /\ UNCHANGED <<pc, att, isNew, cur, slot, res, mydial, chistVars, connVars, rdrVars, tVars, dialVars, panic, unexp>>

------------------------------------------------------------------------------
CallStep(c) ==
    \/ Start(c) \/ GetIdle(c) \/ LeaveCtx(c) \/ LeaveClosed(c) \/ Install(c) \/ ArmQ(c, "query") \/ WriteReq(c)
    \/ TakeReply(c) \/ SeeClose(c) \/ SeeCtx(c) \/ Retry(c) \/ Fail(c) \/ CallCweA(c) \/ CallCweB(c)
CallProgress(c) ==   \* everything but Start (a call need not be started)
    \/ GetIdle(c) \/ LeaveCtx(c) \/ LeaveClosed(c) \/ Install(c) \/ ArmQ(c, "query") \/ WriteReq(c)
    \/ TakeReply(c) \/ SeeClose(c) \/ SeeCtx(c) \/ Retry(c) \/ Fail(c) \/ CallCweA(c) \/ CallCweB(c)
RdrStep(x) == Take(x) \/ ArmIdle(x, "idle") \/ SetIdle(x) \/ Hand(x) \/ RdrCweA(x) \/ RdrCweB(x)
DialStep(d) == Register(d) \/ HandOver(d) \/ Abandon(d)
CloserStep == TCloseLock \/ (\E x \in ConnIds : TCloseOne(x)) \/ TCloseEnd \/ TCloseObs
DialRet(d) == DialOk(d) \/ DialErr(d)
\* the armed deadline of a connection nobody answers eventually expires; a read on a dead/closed conn fails
ReadEnds(x) == ReadFail(x, "err") \/ ReadFail(x, "timeout")

\* steps of the code (including the failure of a read on a connection the code itself has closed)
CodeStep ==
    \/ \E c \in Calls : CallProgress(c) \/ DialInvoke(c)
    \/ \E x \in ConnIds : RdrStep(x) \/ DialStep(x) \/ (closed[x] /\ ReadFail(x, "err"))
    \/ CloserStep
\* steps of the environment: the controller of the harness performs them
EnvStep ==
    \/ \E c \in Calls : Start(c) \/ WriteOk(c) \/ WriteErr(c) \/ Cancel(c)
    \/ \E x \in ConnIds : ServerReply(x) \/ ReadEnds(x) \/ DialRet(x) \/ Surplus(x)
    \/ \E x \in ConnIds, k \in Kinds \ {"surplus"} : Kill(x, k)
    \/ TCloseStart

Next == CodeStep \/ (EnvStep /\ (Eager => ~ENABLED CodeStep))

Spec == Init /\ [][Next]_vars

\* Every process takes finitely many steps (bounded attempts, one reply per written query), so weak
\* fairness of the disjunction of all progress steps is equivalent to per-process weak fairness, and far
\* cheaper for TLC.  Not fair: Start, Cancel, Kill, TCloseStart, ServerReply (silence), idle timeouts.
Progress ==
    \/ \E c \in Calls : CallProgress(c) \/ DialInvoke(c) \/ WriteOk(c) \/ WriteErr(c)
    \/ \E x \in ConnIds : RdrStep(x) \/ DialStep(x) \/ DialRet(x) \/ ReadFail(x, "err")
                            \/ (owe[x] /\ ReadFail(x, "timeout"))
    \/ CloserStep
FairSpec == Spec /\ WF_vars(Progress)

------------------------------------------------------------------------------
\* properties

Ended(c) == pc[c] = "done"
Failed(c) == Ended(c) /\ res[c] # "ok"

\* C08
FailOnlyWhen == \A c \in Calls : Failed(c) => failOK[c]
AttemptsBounded == \A c \in Calls : att[c] <= AttemptBound /\ writes[c] <= att[c] /\ Cardinality(used[c]) <= AttemptBound
\* C02 (reuse part): a reply that was read for the current attempt is returned
\* (exempt: the connection was taken from the idle pool by another call before the reply was handed over --
\*  readLoop calls setIdle before the hand-over on purpose; NoLossStrict documents that window)
NoLoss == \A c \in Calls : (Ended(c) /\ delivered[c] /\ wok[c] /\ ~ctxDone[c] /\ ~tclosed /\ ~shared[c]) => res[c] = "ok"
NoLossStrict == \A c \in Calls : (Ended(c) /\ delivered[c] /\ wok[c] /\ ~ctxDone[c] /\ ~tclosed) => res[c] = "ok"
\* C07 / C01: success only with the own reply, actually read from the connection
ErrOnFault == \A c \in Calls : (Ended(c) /\ res[c] = "ok") => (delivered[c] /\ val[c] = Tok(c))
ClosedRejects == \A c \in Calls : (startedClosed[c] /\ Ended(c)) =>
                      (res[c] = "tclosed" /\ writes[c] = 0 /\ dialedFor[c] = 0)
CloseWakesAll == cl \in {"ret", "done"} => (conns = {} /\ idle = {})
ArmedIsShortWhenOwed == \A x \in ConnIds : (owe[x] /\ ~closed[x]) => armed[x] = "query"
\* C09 (reuse part): one exchange per connection; idle connections are not busy
\* (a call whose reply has already been read no longer occupies the connection: readLoop puts the
\*  connection back before it hands the reply over)
Busy(x) == {c \in Calls : cur[c] = x /\ ~delivered[c] /\ pc[c] \in {"install", "arm", "write", "writing", "wait"}}
OneAtATime == ~panic /\ \A x \in ConnIds : Cardinality(Busy(x)) <= 1 /\ (x \in idle => Busy(x) = {})
IdleSound == idle \subseteq conns /\ \A x \in idle : waiting[x] = None
\* C02: a reply to a written query always finds its waiter (it is never dropped as 'unexpected response')
NoSpuriousUnexpected == ~unexp

TypeOK ==
    /\ \A c \in Calls : pc[c] \in {"na", "get", "dialWait", "install", "arm", "write", "writing", "wait",
                                   "cweA", "cweB", "decide", "done"}
    /\ \A x \in ConnIds : rpc[x] \in {"off", "reading", "got", "armIdle", "setIdle", "hand", "cweA", "cweB", "dead"}
    /\ tm \in {"free", "closer"} /\ cl \in {"idle", "start", "locked", "ret", "done"}

ReuseInv == FailOnlyWhen /\ AttemptsBounded /\ NoLoss /\ ErrOnFault /\ ClosedRejects /\ CloseWakesAll
            /\ ArmedIsShortWhenOwed /\ OneAtATime /\ IdleSound /\ NoSpuriousUnexpected

\* liveness (FairSpec, no constraint)
CallsEnd == \A c \in Calls : (pc[c] # "na") ~> Ended(c)
Released == (cl # "idle") ~> (cl = "done" /\ \A x \in ConnIds :
                 /\ rpc[x] \in {"off", "dead"}
                 /\ dl[x].st \in {"unused", "done"}
                 /\ (health[x] # "na" => closed[x]))
\* with LockInOnce the closer and a closing actor can wait for each other forever
NoLockCycle == ~(\E x \in ConnIds : cl = "locked" /\ x \in conns /\ once[x] \notin {FREE, DONE})

------------------------------------------------------------------------------
\* behaviour export (leg B)
Quiescent ==
    /\ \A c \in Calls : pc[c] \in {"na", "done"}
    /\ \A x \in ConnIds : rpc[x] \in {"off", "dead", "reading"} /\ dl[x].st \in {"unused", "done"}
    /\ spawn = {} /\ cl \in {"idle", "done"}
Emit == (Quiescent /\ \A c \in Calls : pc[c] = "done") =>
    PrintT(<<"BEH", ToJson([steps |-> hist, res |-> res, att |-> att])>>)

ViewNoHist == <<callVars, chistVars, connVars, rdrVars, tVars, dialVars, panic, unexp>>
=============================================================================
