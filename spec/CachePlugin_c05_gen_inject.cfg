\* static copy for readers; checks/C05.py generates this text at run time through cachelib.cfg(): run on module CachePlugin_MC
\* leg B generator: ageing behaviours (-simulate)
SPECIFICATION Spec
CONSTANTS
  Names = {"n1"}
  Types = {"t1", "t2"}
  Classes = {"c1"}
  Flags = {0}
  Kinds = {"std"}
  KeyFields <- AllKey
  Resps <- RespsC05
  LazyTTLs = {0, 50}
  Ticks = {1, 3, 4, 7, 8, 10, 18, 28, 32, 48, 52, 298}
  MaxNow = 400
  MaxOps = 6
  NxMax = 30
  SfMax = 5
  EmptyMax = 300
  StaleTTL = 5
  TTLMode = "stored"
  Admit = "rule"
  Dedup = TRUE
  RefreshOwner = "asked"
  Alias = "none"
  DumpFields <- AllDump
  Insts = {1}
  OpKinds = {"exec", "tick", "refresh"}
  MaxHandles = 0
  WithHist = TRUE
INVARIANTS Emit
CHECK_DEADLOCK FALSE
