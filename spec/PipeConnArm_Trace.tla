------------------------- MODULE PipeConnArm_Trace -------------------------
(***************************************************************************)
(* Leg C for the conn_traditional.go part of C07: traces of                *)
(* harness/drv_pipeconn (every SetReadDeadline of the real connection is   *)
(* a held rendezvous; time is virtual) against PipeConnArm.tla.  Events:   *)
(*   reset   Start{c,g} (the query was handed to Write)   WriteRet{c}      *)
(*   Srd{kind}      a SetReadDeadline(kind) took effect (idle | waiting)   *)
(*   ConnRead       the reader is inside Read                              *)
(*   Deliver{c,g}   a message was returned by Read (reply to that send)    *)
(*   Cancel{c}   ExchangeEnd{c,g,r}                                        *)
(*   Advance        30 s of virtual time pass in silence; the driver has   *)
(*                  waited until nothing moves, so every caller whose Write*)
(*                  returned is past its arming decision                   *)
(*   Timeout{kind}  ... and the armed deadline of that kind fired          *)
(*   Stuck{c}       the call has not returned after the grace period       *)
(* The trace spec does not prescribe WHO arms which deadline: `armed`      *)
(* follows the Srd events; whether a caller arms after its Write is a      *)
(* silent choice; the invariant ArmedIsShortWhenOwed judges every state.   *)
(***************************************************************************)
EXTENDS PipeConnArm, IOUtils

VARIABLE l
Trace == ndJsonDeserialize(IOEnv.TRACE_FILE)
tvars == <<vars, l>>
Ev == Trace[l]
IsEvent(e) == l <= Len(Trace) /\ Ev.ev = e /\ l' = l + 1

TraceInit == l = 1 /\ Init

Reset ==
    /\ IsEvent("reset")
    /\ pc' = [c \in Callers |-> "idle"] /\ gen' = [c \in Callers |-> 0]
    /\ ctxDone' = [c \in Callers |-> FALSE] /\ slot' = [c \in Callers |-> FALSE]
    /\ res' = [c \in Callers |-> "none"]
    /\ wire' = {} /\ net' = {} /\ rd' = Rd("arm")
    /\ wresp' = FALSE /\ armed' = "none" /\ owed' = FALSE /\ closed' = FALSE /\ ncancel' = 0 /\ hist' = << >>

\* after its Write a caller either arms the waiting deadline (an Srd{waiting} event follows) or does not
Decide(c) ==
    /\ pc[c] = "deciding"
    /\ \E n \in {"armcall", "waiting"} : pc' = [pc EXCEPT ![c] = n]
    /\ UNCHANGED <<gen, ctxDone, slot, res, wire, net, rd, wresp, armed, owed, closed, ncancel, hist>>

SrdEv ==
    /\ armed' = Ev.kind
    /\ IF Ev.kind = "waiting"
         THEN \/ \E c \in Callers : pc[c] = "armcall" /\ pc' = [pc EXCEPT ![c] = "waiting"]
              \/ UNCHANGED pc               \* armed by the reader (or anybody else)
         ELSE UNCHANGED pc
    /\ UNCHANGED <<gen, ctxDone, slot, res, wire, net, rd, wresp, owed, closed, ncancel, hist>>

\* (a framed message is fetched with two Reads: the event may repeat)
ConnReadEv ==
    /\ rd.k \in {"arm", "read"} /\ rd' = Rd("read")
    /\ UNCHANGED <<pc, gen, ctxDone, slot, res, wire, net, wresp, armed, owed, closed, ncancel, hist>>

DeliverEv ==
    /\ rd.k = "read" /\ <<Ev.c, Ev.g>> \in wire
    /\ wire' = wire \ {<<Ev.c, Ev.g>>} /\ rd' = Hold(Ev.c, Ev.g)
    /\ UNCHANGED <<pc, gen, ctxDone, slot, res, net, wresp, armed, owed, closed, ncancel, hist>>

TimeoutEv ==
    /\ rd.k = "read" /\ armed = Ev.kind /\ ~closed
    /\ rd' = Rd("dead") /\ closed' = TRUE
    /\ UNCHANGED <<pc, gen, ctxDone, slot, res, wire, net, wresp, armed, owed, ncancel, hist>>

StuckEv(c) ==
    /\ pc[c] = "waiting" /\ ~slot[c] /\ ~closed /\ ~ctxDone[c] /\ ~(rd.k = "hold" /\ rd.c = c /\ rd.g = gen[c])
    /\ UNCHANGED vars

Logged ==
    \/ IsEvent("Start") /\ Start(Ev.c) /\ gen[Ev.c] = Ev.g
    \/ IsEvent("WriteRet") /\ WriteRet(Ev.c)
    \/ IsEvent("Srd") /\ SrdEv
    \/ IsEvent("ConnRead") /\ ConnReadEv
    \/ IsEvent("Deliver") /\ DeliverEv
    \/ IsEvent("Cancel") /\ (Cancel(Ev.c) \/ (pc[Ev.c] \in {"done", "idle"} /\ UNCHANGED vars))
    \/ IsEvent("ExchangeEnd") /\ pc[Ev.c] = "done" /\ gen[Ev.c] = Ev.g /\ res[Ev.c] = Ev.r /\ Return(Ev.c)
    \/ IsEvent("Advance") /\ (\A c \in Callers : pc[c] \notin {"deciding", "armcall"}) /\ UNCHANGED vars
    \/ IsEvent("Timeout") /\ TimeoutEv
    \/ IsEvent("Stuck") /\ StuckEv(Ev.c)

Silent ==
    /\ l <= Len(Trace) /\ UNCHANGED l
    /\ \/ \E c \in Callers : Decide(c) \/ TakeReply(c) \/ SeeCtx(c) \/ SeeClose(c)
       \/ Dispatch

TraceNext == (Reset \/ Logged \/ Silent) /\ ArmedIsShortWhenOwed'
TraceSpec == TraceInit /\ [][TraceNext]_tvars

HWM == TLCSet(1, IF TLCGet(1) < l THEN l ELSE TLCGet(1))
HWMInit == TLCSet(1, 0)
ASSUME HWMInit
Accepted == PrintT(<<"HWM", TLCGet(1), Len(Trace)>>)
=============================================================================
