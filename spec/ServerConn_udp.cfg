SPECIFICATION FairSpec
CONSTANTS
  Conns = {1}
  Ids = {1, 2, 3}
  Mode = "udp"
  WithHist = FALSE
  MaxG = 1
  GenLen = 0
  WithWDL = FALSE
  DEV = "none"
INVARIANTS TypeOK OneReply CtxNotEarly
PROPERTIES ReplyLive ListenerEnds ReadLive
VIEW ViewNoHist
CHECK_DEADLOCK FALSE
