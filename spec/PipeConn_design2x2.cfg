\* PipeConn_design2x2.cfg6
SPECIFICATION Spec
CONSTANTS
  Callers = {0, 1}
  M = 2
  MaxCqs = {2}
  MaxCalls = 2
  StartQids = {0}
  Datagrams = {FALSE}
  UNBUFFERED_HANDOFF = FALSE
  RANDOM_SELECT = FALSE
  DOUBLE_COUNT = FALSE
  DEV = {}
  MaxStray = 0
  MaxDup = 1
  MaxCancel = 1
  MaxFault = 1
  StrictClosed = FALSE
  GenFocus = "none"
  WithHist = FALSE
INVARIANTS TypeOK OwnReply NoStrayDelivered NoLoss Limit ExactAccounting NoUnderflow NoSpuriousRefusal QuiescentFree
VIEW ViewNoHist
CHECK_DEADLOCK FALSE
