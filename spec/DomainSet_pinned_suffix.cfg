\* non-vacuity: domain rules matched by STRING suffix => DesignOK must fail
SPECIFICATION Spec
CONSTANTS
  MaxName = 3
  MaxPat = 2
  MaxRePat = 1
  KwLen = 1
  MaxRules = 2
  Defs = {"domain"}
  Types = {"domain", "full"}
  SuffixMode = "string"
  OrderName = "fdrk"
  KeepDeepest = TRUE
  EmitAll = FALSE
INVARIANTS DesignOK
CHECK_DEADLOCK FALSE
