\* leg A: 3 callers x 2 calls, 3 connection slots, queue limit x connection limit in {1,2}^2, one fault (dial failure or death of an established connection)
SPECIFICATION Spec
CONSTANTS
  Callers = {0, 1, 2}
  Slots = {1, 2, 3}
  QLimits = {1, 2}
  CLimits = {1, 2}
  MaxCalls = 2
  MaxDialFail = 1
  DEAD_ADMITS = FALSE
  DONE_EARLY = FALSE
  DOUBLE_COUNT = FALSE
INVARIANTS ConnLimit ExactConn EarlyLimit NoSpuriousRefusal NoRefusalIfEqual QuietFree SingleFaultSurvives
CHECK_DEADLOCK FALSE
