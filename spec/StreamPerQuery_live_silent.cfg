\* leg A liveness: the server never answers and no transport timeout exists: a call still ends when its context ends
SPECIFICATION FairSpec
CONSTANTS
  Callers = {1, 2}
  IdVals = {1}
  Kinds = {}
  EnvCancel = TRUE
  EnvAbort = FALSE
  Eager = FALSE
  WithHist = FALSE
  Deviation = "none"
INVARIANTS TypeOK
PROPERTIES CtxEnds
VIEW ViewNoHist
CHECK_DEADLOCK FALSE
