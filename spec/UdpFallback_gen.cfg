\* leg B generator: (tcp mode, tc, other bits) -> admissible results of a run in which the UDP reply arrives
SPECIFICATION Spec
CONSTANTS
  TcpModes = {"answers", "refuses", "fails"}
  TestBit = "tc"
  MaxTcp = 3
  MaxUdp = 2
  GiveUpResult = "err"
  Export = TRUE
INVARIANTS Emit
CHECK_DEADLOCK FALSE
