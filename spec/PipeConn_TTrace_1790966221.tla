---- MODULE PipeConn_TTrace_1790966221 ----
EXTENDS PipeConn, Sequences, TLCExt, Toolbox, Naturals, TLC

_expression ==
    LET PipeConn_TEExpression == INSTANCE PipeConn_TEExpression
    IN PipeConn_TEExpression!expression
----

_trace ==
    LET PipeConn_TETrace == INSTANCE PipeConn_TETrace
    IN PipeConn_TETrace!trace
----

_inv ==
    ~(
        TLCGet("level") = Len(_TETrace)
        /\
        spurious = (FALSE)
        /\
        res = ((0 :> [k |-> "err", e |-> "closed"] @@ 1 :> [k |-> "none"]))
        /\
        ndup = (0)
        /\
        netClosed = (FALSE)
        /\
        resent = ((0 :> FALSE @@ 1 :> FALSE))
        /\
        dgram = (FALSE)
        /\
        slot = ((0 :> [k |-> "none"] @@ 1 :> [k |-> "none"]))
        /\
        qid = ((0 :> 3 @@ 1 :> 0))
        /\
        nextQid = (0)
        /\
        ncancel = (0)
        /\
        arrived = ((0 :> [k |-> "reply", c |-> 0, g |-> 0, n |-> 0, wid |-> 3] @@ 1 :> [k |-> "none"]))
        /\
        gen = ((0 :> 0 @@ 1 :> 0))
        /\
        wire = ({[c |-> 0, g |-> 0, wid |-> 3, nr |-> 1]})
        /\
        rd = ([k |-> "reply", c |-> 0, g |-> 0, n |-> 0, wid |-> 3])
        /\
        hist = (<<>>)
        /\
        pc = ((0 :> "done" @@ 1 :> "idle"))
        /\
        nfault = (1)
        /\
        reserved = (0)
        /\
        closed = (TRUE)
        /\
        nstray = (0)
        /\
        net = ({})
        /\
        queue = (<<>>)
        /\
        ctxDone = ((0 :> FALSE @@ 1 :> FALSE))
        /\
        maxCq = (1)
    )
----

_init ==
    /\ nfault = _TETrace[1].nfault
    /\ dgram = _TETrace[1].dgram
    /\ nextQid = _TETrace[1].nextQid
    /\ ctxDone = _TETrace[1].ctxDone
    /\ nstray = _TETrace[1].nstray
    /\ wire = _TETrace[1].wire
    /\ qid = _TETrace[1].qid
    /\ ncancel = _TETrace[1].ncancel
    /\ pc = _TETrace[1].pc
    /\ slot = _TETrace[1].slot
    /\ net = _TETrace[1].net
    /\ spurious = _TETrace[1].spurious
    /\ rd = _TETrace[1].rd
    /\ res = _TETrace[1].res
    /\ netClosed = _TETrace[1].netClosed
    /\ maxCq = _TETrace[1].maxCq
    /\ hist = _TETrace[1].hist
    /\ reserved = _TETrace[1].reserved
    /\ queue = _TETrace[1].queue
    /\ arrived = _TETrace[1].arrived
    /\ resent = _TETrace[1].resent
    /\ ndup = _TETrace[1].ndup
    /\ closed = _TETrace[1].closed
    /\ gen = _TETrace[1].gen
----

_next ==
    /\ \E i,j \in DOMAIN _TETrace:
        /\ \/ /\ j = i + 1
              /\ i = TLCGet("level")
        /\ nfault  = _TETrace[i].nfault
        /\ nfault' = _TETrace[j].nfault
        /\ dgram  = _TETrace[i].dgram
        /\ dgram' = _TETrace[j].dgram
        /\ nextQid  = _TETrace[i].nextQid
        /\ nextQid' = _TETrace[j].nextQid
        /\ ctxDone  = _TETrace[i].ctxDone
        /\ ctxDone' = _TETrace[j].ctxDone
        /\ nstray  = _TETrace[i].nstray
        /\ nstray' = _TETrace[j].nstray
        /\ wire  = _TETrace[i].wire
        /\ wire' = _TETrace[j].wire
        /\ qid  = _TETrace[i].qid
        /\ qid' = _TETrace[j].qid
        /\ ncancel  = _TETrace[i].ncancel
        /\ ncancel' = _TETrace[j].ncancel
        /\ pc  = _TETrace[i].pc
        /\ pc' = _TETrace[j].pc
        /\ slot  = _TETrace[i].slot
        /\ slot' = _TETrace[j].slot
        /\ net  = _TETrace[i].net
        /\ net' = _TETrace[j].net
        /\ spurious  = _TETrace[i].spurious
        /\ spurious' = _TETrace[j].spurious
        /\ rd  = _TETrace[i].rd
        /\ rd' = _TETrace[j].rd
        /\ res  = _TETrace[i].res
        /\ res' = _TETrace[j].res
        /\ netClosed  = _TETrace[i].netClosed
        /\ netClosed' = _TETrace[j].netClosed
        /\ maxCq  = _TETrace[i].maxCq
        /\ maxCq' = _TETrace[j].maxCq
        /\ hist  = _TETrace[i].hist
        /\ hist' = _TETrace[j].hist
        /\ reserved  = _TETrace[i].reserved
        /\ reserved' = _TETrace[j].reserved
        /\ queue  = _TETrace[i].queue
        /\ queue' = _TETrace[j].queue
        /\ arrived  = _TETrace[i].arrived
        /\ arrived' = _TETrace[j].arrived
        /\ resent  = _TETrace[i].resent
        /\ resent' = _TETrace[j].resent
        /\ ndup  = _TETrace[i].ndup
        /\ ndup' = _TETrace[j].ndup
        /\ closed  = _TETrace[i].closed
        /\ closed' = _TETrace[j].closed
        /\ gen  = _TETrace[i].gen
        /\ gen' = _TETrace[j].gen

\* Uncomment the ASSUME below to write the states of the error trace
\* to the given file in Json format. Note that you can pass any tuple
\* to `JsonSerialize`. For example, a sub-sequence of _TETrace.
    \* ASSUME
    \*     LET J == INSTANCE Json
    \*         IN J!JsonSerialize("PipeConn_TTrace_1790966221.json", _TETrace)

=============================================================================

 Note that you can extract this module `PipeConn_TEExpression`
  to a dedicated file to reuse `expression` (the module in the 
  dedicated `PipeConn_TEExpression.tla` file takes precedence 
  over the module `PipeConn_TEExpression` below).

---- MODULE PipeConn_TEExpression ----
EXTENDS PipeConn, Sequences, TLCExt, Toolbox, Naturals, TLC

expression == 
    [
        \* To hide variables of the `PipeConn` spec from the error trace,
        \* remove the variables below.  The trace will be written in the order
        \* of the fields of this record.
        nfault |-> nfault
        ,dgram |-> dgram
        ,nextQid |-> nextQid
        ,ctxDone |-> ctxDone
        ,nstray |-> nstray
        ,wire |-> wire
        ,qid |-> qid
        ,ncancel |-> ncancel
        ,pc |-> pc
        ,slot |-> slot
        ,net |-> net
        ,spurious |-> spurious
        ,rd |-> rd
        ,res |-> res
        ,netClosed |-> netClosed
        ,maxCq |-> maxCq
        ,hist |-> hist
        ,reserved |-> reserved
        ,queue |-> queue
        ,arrived |-> arrived
        ,resent |-> resent
        ,ndup |-> ndup
        ,closed |-> closed
        ,gen |-> gen
        
        \* Put additional constant-, state-, and action-level expressions here:
        \* ,_stateNumber |-> _TEPosition
        \* ,_nfaultUnchanged |-> nfault = nfault'
        
        \* Format the `nfault` variable as Json value.
        \* ,_nfaultJson |->
        \*     LET J == INSTANCE Json
        \*     IN J!ToJson(nfault)
        
        \* Lastly, you may build expressions over arbitrary sets of states by
        \* leveraging the _TETrace operator.  For example, this is how to
        \* count the number of times a spec variable changed up to the current
        \* state in the trace.
        \* ,_nfaultModCount |->
        \*     LET F[s \in DOMAIN _TETrace] ==
        \*         IF s = 1 THEN 0
        \*         ELSE IF _TETrace[s].nfault # _TETrace[s-1].nfault
        \*             THEN 1 + F[s-1] ELSE F[s-1]
        \*     IN F[_TEPosition - 1]
    ]

=============================================================================



Parsing and semantic processing can take forever if the trace below is long.
 In this case, it is advised to uncomment the module below to deserialize the
 trace from a generated binary file.

\*
\*---- MODULE PipeConn_TETrace ----
\*EXTENDS PipeConn, IOUtils, TLC
\*
\*trace == IODeserialize("PipeConn_TTrace_1790966221.bin", TRUE)
\*
\*=============================================================================
\*

---- MODULE PipeConn_TETrace ----
EXTENDS PipeConn, TLC

trace == 
    <<
    ([spurious |-> FALSE,res |-> (0 :> [k |-> "none"] @@ 1 :> [k |-> "none"]),ndup |-> 0,netClosed |-> FALSE,resent |-> (0 :> FALSE @@ 1 :> FALSE),dgram |-> FALSE,slot |-> (0 :> [k |-> "none"] @@ 1 :> [k |-> "none"]),qid |-> (0 :> 0 @@ 1 :> 0),nextQid |-> 3,ncancel |-> 0,arrived |-> (0 :> [k |-> "none"] @@ 1 :> [k |-> "none"]),gen |-> (0 :> 0 @@ 1 :> 0),wire |-> {},rd |-> [k |-> "arm"],hist |-> <<>>,pc |-> (0 :> "idle" @@ 1 :> "idle"),nfault |-> 0,reserved |-> 0,closed |-> FALSE,nstray |-> 0,net |-> {},queue |-> <<>>,ctxDone |-> (0 :> FALSE @@ 1 :> FALSE),maxCq |-> 1]),
    ([spurious |-> FALSE,res |-> (0 :> [k |-> "none"] @@ 1 :> [k |-> "none"]),ndup |-> 0,netClosed |-> FALSE,resent |-> (0 :> FALSE @@ 1 :> FALSE),dgram |-> FALSE,slot |-> (0 :> [k |-> "none"] @@ 1 :> [k |-> "none"]),qid |-> (0 :> 0 @@ 1 :> 0),nextQid |-> 3,ncancel |-> 0,arrived |-> (0 :> [k |-> "none"] @@ 1 :> [k |-> "none"]),gen |-> (0 :> 0 @@ 1 :> 0),wire |-> {},rd |-> [k |-> "arm"],hist |-> <<>>,pc |-> (0 :> "reserved" @@ 1 :> "idle"),nfault |-> 0,reserved |-> 1,closed |-> FALSE,nstray |-> 0,net |-> {},queue |-> <<>>,ctxDone |-> (0 :> FALSE @@ 1 :> FALSE),maxCq |-> 1]),
    ([spurious |-> FALSE,res |-> (0 :> [k |-> "none"] @@ 1 :> [k |-> "none"]),ndup |-> 0,netClosed |-> FALSE,resent |-> (0 :> FALSE @@ 1 :> FALSE),dgram |-> FALSE,slot |-> (0 :> [k |-> "none"] @@ 1 :> [k |-> "none"]),qid |-> (0 :> 0 @@ 1 :> 0),nextQid |-> 3,ncancel |-> 0,arrived |-> (0 :> [k |-> "none"] @@ 1 :> [k |-> "none"]),gen |-> (0 :> 0 @@ 1 :> 0),wire |-> {},rd |-> [k |-> "arm"],hist |-> <<>>,pc |-> (0 :> "started" @@ 1 :> "idle"),nfault |-> 0,reserved |-> 1,closed |-> FALSE,nstray |-> 0,net |-> {},queue |-> <<>>,ctxDone |-> (0 :> FALSE @@ 1 :> FALSE),maxCq |-> 1]),
    ([spurious |-> FALSE,res |-> (0 :> [k |-> "none"] @@ 1 :> [k |-> "none"]),ndup |-> 0,netClosed |-> FALSE,resent |-> (0 :> FALSE @@ 1 :> FALSE),dgram |-> FALSE,slot |-> (0 :> [k |-> "none"] @@ 1 :> [k |-> "none"]),qid |-> (0 :> 3 @@ 1 :> 0),nextQid |-> 0,ncancel |-> 0,arrived |-> (0 :> [k |-> "none"] @@ 1 :> [k |-> "none"]),gen |-> (0 :> 0 @@ 1 :> 0),wire |-> {},rd |-> [k |-> "arm"],hist |-> <<>>,pc |-> (0 :> "registered" @@ 1 :> "idle"),nfault |-> 0,reserved |-> 0,closed |-> FALSE,nstray |-> 0,net |-> {},queue |-> (3 :> 0),ctxDone |-> (0 :> FALSE @@ 1 :> FALSE),maxCq |-> 1]),
    ([spurious |-> FALSE,res |-> (0 :> [k |-> "none"] @@ 1 :> [k |-> "none"]),ndup |-> 0,netClosed |-> FALSE,resent |-> (0 :> FALSE @@ 1 :> FALSE),dgram |-> FALSE,slot |-> (0 :> [k |-> "none"] @@ 1 :> [k |-> "none"]),qid |-> (0 :> 3 @@ 1 :> 0),nextQid |-> 0,ncancel |-> 0,arrived |-> (0 :> [k |-> "none"] @@ 1 :> [k |-> "none"]),gen |-> (0 :> 0 @@ 1 :> 0),wire |-> {[c |-> 0, g |-> 0, wid |-> 3, nr |-> 0]},rd |-> [k |-> "arm"],hist |-> <<>>,pc |-> (0 :> "written" @@ 1 :> "idle"),nfault |-> 0,reserved |-> 0,closed |-> FALSE,nstray |-> 0,net |-> {},queue |-> (3 :> 0),ctxDone |-> (0 :> FALSE @@ 1 :> FALSE),maxCq |-> 1]),
    ([spurious |-> FALSE,res |-> (0 :> [k |-> "none"] @@ 1 :> [k |-> "none"]),ndup |-> 0,netClosed |-> FALSE,resent |-> (0 :> FALSE @@ 1 :> FALSE),dgram |-> FALSE,slot |-> (0 :> [k |-> "none"] @@ 1 :> [k |-> "none"]),qid |-> (0 :> 3 @@ 1 :> 0),nextQid |-> 0,ncancel |-> 0,arrived |-> (0 :> [k |-> "none"] @@ 1 :> [k |-> "none"]),gen |-> (0 :> 0 @@ 1 :> 0),wire |-> {[c |-> 0, g |-> 0, wid |-> 3, nr |-> 0]},rd |-> [k |-> "arm"],hist |-> <<>>,pc |-> (0 :> "waiting" @@ 1 :> "idle"),nfault |-> 0,reserved |-> 0,closed |-> FALSE,nstray |-> 0,net |-> {},queue |-> (3 :> 0),ctxDone |-> (0 :> FALSE @@ 1 :> FALSE),maxCq |-> 1]),
    ([spurious |-> FALSE,res |-> (0 :> [k |-> "none"] @@ 1 :> [k |-> "none"]),ndup |-> 0,netClosed |-> FALSE,resent |-> (0 :> FALSE @@ 1 :> FALSE),dgram |-> FALSE,slot |-> (0 :> [k |-> "none"] @@ 1 :> [k |-> "none"]),qid |-> (0 :> 3 @@ 1 :> 0),nextQid |-> 0,ncancel |-> 0,arrived |-> (0 :> [k |-> "none"] @@ 1 :> [k |-> "none"]),gen |-> (0 :> 0 @@ 1 :> 0),wire |-> {[c |-> 0, g |-> 0, wid |-> 3, nr |-> 0]},rd |-> [k |-> "read"],hist |-> <<>>,pc |-> (0 :> "waiting" @@ 1 :> "idle"),nfault |-> 0,reserved |-> 0,closed |-> FALSE,nstray |-> 0,net |-> {},queue |-> (3 :> 0),ctxDone |-> (0 :> FALSE @@ 1 :> FALSE),maxCq |-> 1]),
    ([spurious |-> FALSE,res |-> (0 :> [k |-> "none"] @@ 1 :> [k |-> "none"]),ndup |-> 0,netClosed |-> FALSE,resent |-> (0 :> FALSE @@ 1 :> FALSE),dgram |-> FALSE,slot |-> (0 :> [k |-> "none"] @@ 1 :> [k |-> "none"]),qid |-> (0 :> 3 @@ 1 :> 0),nextQid |-> 0,ncancel |-> 0,arrived |-> (0 :> [k |-> "none"] @@ 1 :> [k |-> "none"]),gen |-> (0 :> 0 @@ 1 :> 0),wire |-> {[c |-> 0, g |-> 0, wid |-> 3, nr |-> 1]},rd |-> [k |-> "read"],hist |-> <<>>,pc |-> (0 :> "waiting" @@ 1 :> "idle"),nfault |-> 0,reserved |-> 0,closed |-> FALSE,nstray |-> 0,net |-> {[k |-> "reply", c |-> 0, g |-> 0, n |-> 0, wid |-> 3]},queue |-> (3 :> 0),ctxDone |-> (0 :> FALSE @@ 1 :> FALSE),maxCq |-> 1]),
    ([spurious |-> FALSE,res |-> (0 :> [k |-> "none"] @@ 1 :> [k |-> "none"]),ndup |-> 0,netClosed |-> FALSE,resent |-> (0 :> FALSE @@ 1 :> FALSE),dgram |-> FALSE,slot |-> (0 :> [k |-> "none"] @@ 1 :> [k |-> "none"]),qid |-> (0 :> 3 @@ 1 :> 0),nextQid |-> 0,ncancel |-> 0,arrived |-> (0 :> [k |-> "reply", c |-> 0, g |-> 0, n |-> 0, wid |-> 3] @@ 1 :> [k |-> "none"]),gen |-> (0 :> 0 @@ 1 :> 0),wire |-> {[c |-> 0, g |-> 0, wid |-> 3, nr |-> 1]},rd |-> [k |-> "reply", c |-> 0, g |-> 0, n |-> 0, wid |-> 3],hist |-> <<>>,pc |-> (0 :> "waiting" @@ 1 :> "idle"),nfault |-> 0,reserved |-> 0,closed |-> FALSE,nstray |-> 0,net |-> {},queue |-> (3 :> 0),ctxDone |-> (0 :> FALSE @@ 1 :> FALSE),maxCq |-> 1]),
    ([spurious |-> FALSE,res |-> (0 :> [k |-> "none"] @@ 1 :> [k |-> "none"]),ndup |-> 0,netClosed |-> FALSE,resent |-> (0 :> FALSE @@ 1 :> FALSE),dgram |-> FALSE,slot |-> (0 :> [k |-> "none"] @@ 1 :> [k |-> "none"]),qid |-> (0 :> 3 @@ 1 :> 0),nextQid |-> 0,ncancel |-> 0,arrived |-> (0 :> [k |-> "reply", c |-> 0, g |-> 0, n |-> 0, wid |-> 3] @@ 1 :> [k |-> "none"]),gen |-> (0 :> 0 @@ 1 :> 0),wire |-> {[c |-> 0, g |-> 0, wid |-> 3, nr |-> 1]},rd |-> [k |-> "reply", c |-> 0, g |-> 0, n |-> 0, wid |-> 3],hist |-> <<>>,pc |-> (0 :> "waiting" @@ 1 :> "idle"),nfault |-> 1,reserved |-> 0,closed |-> TRUE,nstray |-> 0,net |-> {},queue |-> (3 :> 0),ctxDone |-> (0 :> FALSE @@ 1 :> FALSE),maxCq |-> 1]),
    ([spurious |-> FALSE,res |-> (0 :> [k |-> "err", e |-> "closed"] @@ 1 :> [k |-> "none"]),ndup |-> 0,netClosed |-> FALSE,resent |-> (0 :> FALSE @@ 1 :> FALSE),dgram |-> FALSE,slot |-> (0 :> [k |-> "none"] @@ 1 :> [k |-> "none"]),qid |-> (0 :> 3 @@ 1 :> 0),nextQid |-> 0,ncancel |-> 0,arrived |-> (0 :> [k |-> "reply", c |-> 0, g |-> 0, n |-> 0, wid |-> 3] @@ 1 :> [k |-> "none"]),gen |-> (0 :> 0 @@ 1 :> 0),wire |-> {[c |-> 0, g |-> 0, wid |-> 3, nr |-> 1]},rd |-> [k |-> "reply", c |-> 0, g |-> 0, n |-> 0, wid |-> 3],hist |-> <<>>,pc |-> (0 :> "unreg" @@ 1 :> "idle"),nfault |-> 1,reserved |-> 0,closed |-> TRUE,nstray |-> 0,net |-> {},queue |-> (3 :> 0),ctxDone |-> (0 :> FALSE @@ 1 :> FALSE),maxCq |-> 1]),
    ([spurious |-> FALSE,res |-> (0 :> [k |-> "err", e |-> "closed"] @@ 1 :> [k |-> "none"]),ndup |-> 0,netClosed |-> FALSE,resent |-> (0 :> FALSE @@ 1 :> FALSE),dgram |-> FALSE,slot |-> (0 :> [k |-> "none"] @@ 1 :> [k |-> "none"]),qid |-> (0 :> 3 @@ 1 :> 0),nextQid |-> 0,ncancel |-> 0,arrived |-> (0 :> [k |-> "reply", c |-> 0, g |-> 0, n |-> 0, wid |-> 3] @@ 1 :> [k |-> "none"]),gen |-> (0 :> 0 @@ 1 :> 0),wire |-> {[c |-> 0, g |-> 0, wid |-> 3, nr |-> 1]},rd |-> [k |-> "reply", c |-> 0, g |-> 0, n |-> 0, wid |-> 3],hist |-> <<>>,pc |-> (0 :> "done" @@ 1 :> "idle"),nfault |-> 1,reserved |-> 0,closed |-> TRUE,nstray |-> 0,net |-> {},queue |-> <<>>,ctxDone |-> (0 :> FALSE @@ 1 :> FALSE),maxCq |-> 1])
    >>
----


=============================================================================

---- CONFIG PipeConn_TTrace_1790966221 ----
CONSTANTS
    Callers = { 0 , 1 }
    M = 4
    MaxCqs = { 1 , 2 }
    MaxCalls = 1
    StartQids = { 3 }
    Datagrams = { TRUE , FALSE }
    UNBUFFERED_HANDOFF = FALSE
    RANDOM_SELECT = FALSE
    DOUBLE_COUNT = FALSE
    DEV = { }
    MaxStray = 1
    MaxDup = 1
    MaxCancel = 1
    MaxFault = 1
    WithHist = FALSE

INVARIANT
    _inv

CHECK_DEADLOCK
    \* CHECK_DEADLOCK off because of PROPERTY or INVARIANT above.
    FALSE

INIT
    _init

NEXT
    _next

CONSTANT
    _TETrace <- _trace

ALIAS
    _expression
=============================================================================
\* Generated on Fri Oct 02 18:37:05 UTC 2026