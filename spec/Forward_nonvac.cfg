\* leg A non-vacuity: with deviation switch Bug the named invariant / property must be violated
\* (checks/C14.py substitutes SPECIFICATION / Bug / INVARIANTS / PROPERTIES per pair)
SPECIFICATION FairAll
CONSTANTS
  Ns = {1, 2}
  Cs = {2, 5}
  Outcomes = {"good", "bad", "error"}
  EnvCancel = TRUE
  Eager = FALSE
  WithHist = FALSE
  Bug = "first_any"
VIEW ViewNoHist
INVARIANTS NoMasking
CHECK_DEADLOCK FALSE
