\* non-vacuity: deciding on "oth" instead of the TC bit must violate C17Inv
SPECIFICATION Spec
CONSTANTS
  TcpModes = {"answers", "refuses", "fails"}
  TestBit = "oth"
  MaxTcp = 3
  MaxUdp = 2
  GiveUpResult = "err"
  Export = FALSE
INVARIANTS C17Inv
CHECK_DEADLOCK FALSE
