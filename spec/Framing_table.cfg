\* outcome table Class(len) for every len in 0..65537, evaluated by TLC at B = 256
SPECIFICATION Spec
CONSTANTS
  B = 256
  MIN = 12
  Writers = {}
  Lens = {}
  MinAccepts = {TRUE}
  MaxCut = 0
  SplitWrite = FALSE
  NoMaxCheck = FALSE
  NoMinCheck = FALSE
  ResumeFresh = FALSE
  NoReadFull = FALSE
  WithHist = FALSE
  Export = TRUE
INVARIANTS EmitTable
CHECK_DEADLOCK FALSE
