------------------------------ MODULE UpDial ------------------------------
(***************************************************************************)
(* Upstream-level dial and lifecycle (extends C07 to the layer above the   *)
(* transports; C01 for the result of the UDP -> TCP fallback)              *)
(*   pkg/upstream/upstream.go   NewUpstream: tcp / tls dialNetConn         *)
(*                              closures (+pipeline), udpWithFallback      *)
(*   transport/reuse.go         getNewConn (dial goroutine, t.ctx +        *)
(*                              dialTimeout), Close                        *)
(*   transport/conn_lazy_dial.go, pipeline.go   lazy dial, early waiters,  *)
(*                              Close                                      *)
(*                                                                         *)
(* A dial d is a sequence of phases: "connecting" (TCP connect: refused /  *)
(* accepted / hangs), for tls "handshaking" (server completes / stays      *)
(* silent / closes), then "up".  Each phase can be cancelled by the dial   *)
(* timeout and by the upstream's Close (DialAbort).  Server behaviour is   *)
(* environment: an outcome that never happens is "hang" / "silent".        *)
(*                                                                         *)
(* Time is abstract.  now = 0: the dial timeout of a dial started at 0 has *)
(* certainly not passed; 1: it may have passed; 2: timeout + slack has     *)
(* certainly passed.  cnow = 0/2 likewise for "Close + slack".  Urgency:   *)
(* time cannot advance to 2 while a system step that the timeout / Close   *)
(* enables is still pending (Tick12, CTick are disabled) -- so the         *)
(* properties are invariants of the states with now = 2 / cnow = 2, and a  *)
(* deviation that disables such a step makes them fail.                    *)
(***************************************************************************)
EXTENDS Naturals, Sequences, TLC, Json

CONSTANTS
    Kinds,        \* subset of {"tcp", "tls", "tcp+pipeline", "tls+pipeline", "udp"}
    Listens,      \* subset of {"accept", "refuse", "hang"}: what the TCP port does
    InitCalls,    \* calls made before Close, e.g. {1, 2}
    LateCall,     \* the call made after Close returned (a number not in InitCalls), 0 = none
    MaxD,         \* dials / connections
    EnvCancel, WithHist, Eager,
    Deviation     \* "none" | "HANDSHAKE_IGNORES_CTX" | "NO_DIAL_TIMEOUT" | "CLOSE_KEEPS_DIAL" | "CLOSE_KEEPS_CONN"
                  \* | "CLOSE_KEEPS_CALLS" | "ACCEPT_AFTER_CLOSE" | "TC_AS_SUCCESS"

VARIABLES
    kind, listen,
    now, cnow, closed, closeRet,
    dst,      \* dial / connection, client side: "none" | "connecting" | "handshaking" | "up" | "failed" (the dial
              \* never produced a connection) | "closed" (an established connection was closed)
    epoch0,   \* the dial was started at now = 0 (the abstract clock applies to it)
    sconn,    \* server side view of the TCP connection: "none" | "open" | "cclosed" | "sclosed"
    dgo,      \* goroutines of the dial / connection alive
    qto,      \* the transport's own query / idle liveness timeout hit this connection
    ugo,      \* udp: socket + reader goroutine alive
    cpc, cres, cctx, con, answered,
    att,      \* the call has not chosen its connection yet: "a0" / "a1" (called at now = 0 / later), else "none" / "done"
    own,      \* the call opened the connection it waits on itself (a fresh connection: its failure is reported, not retried)
    ust,      \* udp leg of a call: "none" | "sent" | "tc0" / "tc1" (truncated reply on its way, sent at now = 0 / later)
              \* | "tc" (gone on over tcp) | "ok" | "fail"
    hist

vars == <<kind, listen, now, cnow, closed, closeRet, dst, epoch0, sconn, dgo, qto, ugo,
          cpc, cres, cctx, con, answered, att, own, ust, hist>>

Dials == 1..MaxD
Calls == InitCalls \cup (IF LateCall = 0 THEN {} ELSE {LateCall})
Tls == kind \in {"tls", "tls+pipeline"}
Pipe == kind \in {"tcp+pipeline", "tls+pipeline"}
Udp == kind = "udp"

H(e) == hist' = IF WithHist THEN Append(hist, e) ELSE hist

Init ==
    /\ kind \in Kinds /\ listen \in Listens
    /\ now = 0 /\ cnow = 0 /\ closed = FALSE /\ closeRet = FALSE
    /\ dst = [d \in Dials |-> "none"]
    /\ epoch0 = [d \in Dials |-> FALSE]
    /\ sconn = [d \in Dials |-> "none"]
    /\ dgo = [d \in Dials |-> FALSE]
    /\ qto = [d \in Dials |-> FALSE]
    /\ ugo = FALSE
    /\ cpc = [c \in Calls |-> "idle"]
    /\ cres = [c \in Calls |-> "none"]
    /\ cctx = [c \in Calls |-> FALSE]
    /\ con = [c \in Calls |-> 0]
    /\ answered = [c \in Calls |-> FALSE]
    /\ own = [c \in Calls |-> FALSE]
    /\ att = [c \in Calls |-> "none"]
    /\ ust = [c \in Calls |-> "none"]
    /\ hist = <<>>

InProgress(d) == dst[d] \in {"connecting", "handshaking"}
Ended(d) == dst[d] \in {"failed", "closed"}
PhaseOk(d) == ~(Deviation = "HANDSHAKE_IGNORES_CTX" /\ dst[d] = "handshaking")
\* the timer of a dial started at now = 0 may fire from now = 1 on; the timer of a later dial is not tracked (may fire any time)
ByTimeout(d) == (~epoch0[d] \/ now >= 1) /\ Deviation # "NO_DIAL_TIMEOUT"
ByClose(d) == closed /\ Deviation # "CLOSE_KEEPS_DIAL"
Waiting(c) == cpc[c] = "wait"
Idle(d) == \A c \in Calls : ~(Waiting(c) /\ con[c] = d)
Free == {d \in Dials : dst[d] = "none"}
NewD == CHOOSE d \in Free : \A e \in Free : d <= e

\* system steps that the dial timeout enables / that follow from a failed dial
Urgent ==
    \/ \E d \in Dials : InProgress(d) /\ PhaseOk(d) /\ epoch0[d] /\ ByTimeout(d)
    \/ \E c \in Calls : Waiting(c) /\ con[c] # 0 /\ dst[con[c]] = "failed"
    \/ \E c \in Calls : Waiting(c) /\ (ust[c] = "tc0" \/ (att[c] = "a0" /\ ~closed))
\* system steps that Close enables
CUrgent ==
    \/ \E d \in Dials : InProgress(d) /\ PhaseOk(d) /\ ByClose(d)
    \/ \E d \in Dials : dst[d] = "up" /\ closed /\ Deviation # "CLOSE_KEEPS_CONN"
    \/ \E d \in Dials : Ended(d) /\ dgo[d]
    \/ ugo /\ closed
    \/ \E c \in Calls : Waiting(c) /\ ((closed /\ Deviation # "CLOSE_KEEPS_CALLS") \/ (con[c] # 0 /\ Ended(con[c])))
    \/ closed /\ ~closeRet

AllDone == closeRet /\ cnow = 2 /\ \A c \in Calls : cpc[c] \in {"idle", "done"}
\* generator filter: the environment moves only when nothing internal is pending
Busy == Urgent \/ CUrgent \/ \E c \in Calls : Waiting(c) /\ (answered[c] \/ cctx[c] \/ ust[c] \in {"fail", "tc0", "tc1"} \/ (att[c] \in {"a0", "a1"} /\ ~closed))
EnvMay == ~Eager \/ (~Busy /\ ~AllDone)

------------------------------------------------------------------------------
\* calls

StartDial(d) ==
    /\ dst' = [dst EXCEPT ![d] = "connecting"]
    /\ epoch0' = [epoch0 EXCEPT ![d] = (now = 0)]
    /\ dgo' = [dgo EXCEPT ![d] = TRUE]

\* a call made while the upstream is open: it waits for a new dial, or (pipeline) joins a live connection /
\* (any kind) takes an idle established one; udp: the query goes out on the socket
Call(c) ==
    /\ EnvMay
    /\ c \in InitCalls /\ cpc[c] = "idle" /\ ~closed
    /\ (Eager => now = 0)
    /\ cpc' = [cpc EXCEPT ![c] = "wait"]
    /\ IF Udp
         THEN ust' = [ust EXCEPT ![c] = "sent"] /\ ugo' = TRUE /\ UNCHANGED att
         ELSE att' = [att EXCEPT ![c] = IF now = 0 THEN "a0" ELSE "a1"] /\ UNCHANGED <<ust, ugo>>
    /\ H([a |-> "Call", c |-> c])
    /\ UNCHANGED <<kind, listen, now, cnow, closed, closeRet, dst, epoch0, sconn, dgo, qto, cres, cctx, con, answered, own>>

\* the call gets its connection: it waits for a new dial (whose clock started with the call), or (pipeline) joins a live
\* connection / (any kind) takes an idle established one
Attach(c) ==
    /\ Waiting(c) /\ att[c] \in {"a0", "a1"} /\ ~closed
    /\ att' = [att EXCEPT ![c] = "done"]
    /\ \/ /\ Free # {}
          /\ dst' = [dst EXCEPT ![NewD] = "connecting"]
          /\ epoch0' = [epoch0 EXCEPT ![NewD] = (att[c] = "a0")]
          /\ dgo' = [dgo EXCEPT ![NewD] = TRUE]
          /\ con' = [con EXCEPT ![c] = NewD]
          /\ own' = [own EXCEPT ![c] = TRUE]
       \/ /\ \E d \in Dials :
               /\ \/ Pipe /\ dst[d] \in {"connecting", "handshaking", "up"}
                  \/ dst[d] = "up" /\ Idle(d)
               /\ con' = [con EXCEPT ![c] = d]
               \* which of the calls sharing a lazy dial really opened it is not observable: either
               /\ \/ UNCHANGED own
                  \/ \E o \in Calls : /\ o # c /\ con[o] = d /\ own[o] /\ Waiting(o)
                                       /\ own' = [own EXCEPT ![o] = FALSE, ![c] = TRUE]
          /\ UNCHANGED <<dst, epoch0, dgo>>
    /\ H([a |-> "Attach", c |-> c])
    /\ UNCHANGED <<kind, listen, now, cnow, closed, closeRet, sconn, qto, ugo, cpc, cres, cctx, answered, ust>>

\* a call made after Close returned fails at once
CallLate(c) ==
    /\ EnvMay
    /\ c = LateCall /\ cpc[c] = "idle" /\ closeRet
    /\ IF Deviation = "ACCEPT_AFTER_CLOSE"
         THEN cpc' = [cpc EXCEPT ![c] = "wait"] /\ UNCHANGED cres
         ELSE cpc' = [cpc EXCEPT ![c] = "done"] /\ cres' = [cres EXCEPT ![c] = "err"]
    /\ H([a |-> "CallLate", c |-> c])
    /\ UNCHANGED <<kind, listen, now, cnow, closed, closeRet, dst, epoch0, sconn, dgo, qto, ugo, cctx, con, answered, ust, own, att>>

RetOk(c) ==
    /\ Waiting(c) /\ answered[c]
    /\ cpc' = [cpc EXCEPT ![c] = "done"] /\ cres' = [cres EXCEPT ![c] = "ok"]
    /\ H([a |-> "RetOk", c |-> c])
    /\ UNCHANGED <<kind, listen, now, cnow, closed, closeRet, dst, epoch0, sconn, dgo, qto, ugo, cctx, con, answered, ust, own, att>>

ErrCause(c) ==
    \/ cctx[c]
    \/ closed /\ Deviation # "CLOSE_KEEPS_CALLS"
    \/ con[c] # 0 /\ Ended(con[c])
    \/ ust[c] = "fail"

RetErr(c) ==
    /\ Waiting(c) /\ ErrCause(c)
    /\ cpc' = [cpc EXCEPT ![c] = "done"] /\ cres' = [cres EXCEPT ![c] = "err"]
    /\ H([a |-> "RetErr", c |-> c])
    /\ UNCHANGED <<kind, listen, now, cnow, closed, closeRet, dst, epoch0, sconn, dgo, qto, ugo, cctx, con, answered, ust, own, att>>

\* a call whose connection died / whose shared dial failed may be tried again on another connection (the transports
\* retry calls that did not open the connection themselves; how often is not part of this contract)
Retry(c) ==
    /\ Waiting(c) /\ ~closed /\ con[c] # 0 /\ ~own[c]
    /\ Ended(con[c]) \/ cctx[c]      \* (the transports' retry test does not look at the context: a cancelled call may move on once more)
    /\ \/ /\ Free # {} /\ StartDial(NewD) /\ con' = [con EXCEPT ![c] = NewD]
          /\ own' = [own EXCEPT ![c] = TRUE]
       \/ /\ \E d \in Dials :
               /\ \/ Pipe /\ dst[d] \in {"connecting", "handshaking", "up"}
                  \/ dst[d] = "up" /\ Idle(d)
               /\ con' = [con EXCEPT ![c] = d]
          /\ UNCHANGED <<dst, epoch0, dgo, own>>
    /\ H([a |-> "Retry", c |-> c])
    /\ UNCHANGED <<kind, listen, now, cnow, closed, closeRet, sconn, qto, ugo, cpc, cres, cctx, answered, ust, att>>

\* deviation only: the truncated udp reply handed out as a success after the tcp leg failed
RetTc(c) ==
    /\ Deviation = "TC_AS_SUCCESS"
    /\ Waiting(c) /\ ust[c] = "tc" /\ con[c] # 0 /\ Ended(con[c])
    /\ cpc' = [cpc EXCEPT ![c] = "done"] /\ cres' = [cres EXCEPT ![c] = "ok"]
    /\ H([a |-> "RetTc", c |-> c])
    /\ UNCHANGED <<kind, listen, now, cnow, closed, closeRet, dst, epoch0, sconn, dgo, qto, ugo, cctx, con, answered, ust, own, att>>

------------------------------------------------------------------------------
\* dial / connection: system steps

CloseClient(d) == sconn' = [sconn EXCEPT ![d] = IF sconn[d] = "open" THEN "cclosed" ELSE sconn[d]]

\* the dial context ends (timeout or Close): the current phase is abandoned and its connection closed
DialAbort(d) ==
    /\ InProgress(d) /\ PhaseOk(d) /\ (ByTimeout(d) \/ ByClose(d))
    /\ dst' = [dst EXCEPT ![d] = "failed"]
    /\ CloseClient(d)
    /\ H([a |-> "DialAbort", d |-> d])
    /\ UNCHANGED <<kind, listen, now, cnow, closed, closeRet, epoch0, dgo, qto, ugo, cpc, cres, cctx, con, answered, ust, own, att>>

\* an established connection is closed: by Close, after the server closed it, after the transport's own
\* liveness timeout, or any time while idle (idle timeout)
ConnClose(d) ==
    /\ dst[d] = "up"
    /\ \/ closed /\ Deviation # "CLOSE_KEEPS_CONN"
       \/ sconn[d] = "sclosed" \/ qto[d] \/ Idle(d)
    /\ dst' = [dst EXCEPT ![d] = "closed"]
    /\ CloseClient(d)
    /\ H([a |-> "ConnClose", d |-> d])
    /\ UNCHANGED <<kind, listen, now, cnow, closed, closeRet, epoch0, dgo, qto, ugo, cpc, cres, cctx, con, answered, ust, own, att>>

GoExit(d) ==
    /\ Ended(d) /\ dgo[d]
    /\ dgo' = [dgo EXCEPT ![d] = FALSE]
    /\ H([a |-> "GoExit", d |-> d])
    /\ UNCHANGED <<kind, listen, now, cnow, closed, closeRet, dst, epoch0, sconn, qto, ugo, cpc, cres, cctx, con, answered, ust, own, att>>

UGoExit ==
    /\ ugo /\ closed
    /\ ugo' = FALSE
    /\ H([a |-> "UGoExit"])
    /\ UNCHANGED <<kind, listen, now, cnow, closed, closeRet, dst, epoch0, sconn, dgo, qto, cpc, cres, cctx, con, answered, ust, own, att>>

CloseReturns ==
    /\ closed /\ ~closeRet
    /\ closeRet' = TRUE
    /\ H([a |-> "CloseReturns"])
    /\ UNCHANGED <<kind, listen, now, cnow, closed, dst, epoch0, sconn, dgo, qto, ugo, cpc, cres, cctx, con, answered, ust, own, att>>

------------------------------------------------------------------------------
\* environment: server, timers, the user of the upstream

TcpAccept(d) ==
    /\ EnvMay
    /\ listen = "accept" /\ dst[d] = "connecting"
    /\ sconn' = [sconn EXCEPT ![d] = "open"]
    /\ dst' = [dst EXCEPT ![d] = IF Tls THEN "handshaking" ELSE "up"]
    /\ H([a |-> "TcpAccept", d |-> d])
    /\ UNCHANGED <<kind, listen, now, cnow, closed, closeRet, epoch0, dgo, qto, ugo, cpc, cres, cctx, con, answered, ust, own, att>>

TcpRefuse(d) ==
    /\ EnvMay
    /\ listen = "refuse" /\ dst[d] = "connecting"
    /\ dst' = [dst EXCEPT ![d] = "failed"]
    /\ H([a |-> "TcpRefuse", d |-> d])
    /\ UNCHANGED <<kind, listen, now, cnow, closed, closeRet, epoch0, sconn, dgo, qto, ugo, cpc, cres, cctx, con, answered, ust, own, att>>

HsComplete(d) ==
    /\ EnvMay
    /\ dst[d] = "handshaking" /\ sconn[d] = "open"
    /\ dst' = [dst EXCEPT ![d] = "up"]
    /\ H([a |-> "HsComplete", d |-> d])
    /\ UNCHANGED <<kind, listen, now, cnow, closed, closeRet, epoch0, sconn, dgo, qto, ugo, cpc, cres, cctx, con, answered, ust, own, att>>

\* the server closes the connection: during the handshake the dial fails, later the connection is dead
SrvClose(d) ==
    /\ EnvMay
    /\ dst[d] \in {"handshaking", "up"} /\ sconn[d] = "open"
    /\ sconn' = [sconn EXCEPT ![d] = "sclosed"]
    /\ dst' = [dst EXCEPT ![d] = IF dst[d] = "handshaking" THEN "failed" ELSE "up"]
    /\ H([a |-> "SrvClose", d |-> d])
    /\ UNCHANGED <<kind, listen, now, cnow, closed, closeRet, epoch0, dgo, qto, ugo, cpc, cres, cctx, con, answered, ust, own, att>>

Answer(c) ==
    /\ EnvMay
    /\ Waiting(c) /\ ~answered[c] /\ con[c] # 0 /\ dst[con[c]] = "up" /\ sconn[con[c]] = "open"
    /\ answered' = [answered EXCEPT ![c] = TRUE]
    /\ H([a |-> "Answer", c |-> c])
    /\ UNCHANGED <<kind, listen, now, cnow, closed, closeRet, dst, epoch0, sconn, dgo, qto, ugo, cpc, cres, cctx, con, ust, own, att>>

\* the transport's own liveness timeout (6 s reuse / 10 s pipelined, udp): the silent connection is given up
QueryTimeout(d) ==
    /\ EnvMay
    /\ dst[d] = "up" /\ ~qto[d] /\ \E c \in Calls : Waiting(c) /\ con[c] = d /\ ~answered[c]
    /\ qto' = [qto EXCEPT ![d] = TRUE]
    /\ H([a |-> "QueryTimeout", d |-> d])
    /\ UNCHANGED <<kind, listen, now, cnow, closed, closeRet, dst, epoch0, sconn, dgo, ugo, cpc, cres, cctx, con, answered, ust, own, att>>

\* udp leg: a full reply, a truncated one (the call goes on over a new tcp connection), or silence until the timeout
UdpAnswer(c, tc) ==
    /\ EnvMay
    /\ Udp /\ Waiting(c) /\ ust[c] = "sent"
    /\ IF tc
         THEN ust' = [ust EXCEPT ![c] = IF now = 0 THEN "tc0" ELSE "tc1"] /\ UNCHANGED answered
         ELSE ust' = [ust EXCEPT ![c] = "ok"] /\ answered' = [answered EXCEPT ![c] = TRUE]
    /\ H([a |-> "UdpAnswer", c |-> c, tc |-> tc])
    /\ UNCHANGED <<kind, listen, now, cnow, closed, closeRet, dst, epoch0, sconn, dgo, qto, ugo, cpc, cres, cctx, con, own, att>>

\* the call has read the truncated reply and goes on over tcp: a new dial (its clock starts when the truncated reply
\* was sent) or an idle tcp connection
Fallback(c) ==
    /\ Waiting(c) /\ ust[c] \in {"tc0", "tc1"}
    /\ \/ /\ Free # {}
          /\ dst' = [dst EXCEPT ![NewD] = "connecting"]
          /\ epoch0' = [epoch0 EXCEPT ![NewD] = (ust[c] = "tc0")]
          /\ dgo' = [dgo EXCEPT ![NewD] = TRUE]
          /\ con' = [con EXCEPT ![c] = NewD]
          /\ own' = [own EXCEPT ![c] = TRUE]
       \/ /\ \E d \in Dials : dst[d] = "up" /\ Idle(d) /\ con' = [con EXCEPT ![c] = d]
          /\ UNCHANGED <<dst, epoch0, dgo, own>>
    /\ ust' = [ust EXCEPT ![c] = "tc"]
    /\ H([a |-> "Fallback", c |-> c])
    /\ UNCHANGED <<kind, listen, now, cnow, closed, closeRet, sconn, qto, ugo, cpc, cres, cctx, answered, att>>

UdpTimeout(c) ==
    /\ EnvMay
    /\ Udp /\ Waiting(c) /\ ust[c] = "sent"
    /\ ust' = [ust EXCEPT ![c] = "fail"]
    /\ H([a |-> "UdpTimeout", c |-> c])
    /\ UNCHANGED <<kind, listen, now, cnow, closed, closeRet, dst, epoch0, sconn, dgo, qto, ugo, cpc, cres, cctx, con, answered, own, att>>

Cancel(c) ==
    /\ EnvMay /\ EnvCancel
    /\ Waiting(c) /\ ~cctx[c]
    /\ cctx' = [cctx EXCEPT ![c] = TRUE]
    /\ H([a |-> "Cancel", c |-> c])
    /\ UNCHANGED <<kind, listen, now, cnow, closed, closeRet, dst, epoch0, sconn, dgo, qto, ugo, cpc, cres, con, answered, ust, own, att>>

\* (generator: time passes / Close happens only after the scenario's calls have been made)
AllCalled == \A c \in InitCalls : cpc[c] # "idle"

Close ==
    /\ EnvMay /\ (Eager => AllCalled)
    /\ ~closed
    /\ closed' = TRUE
    /\ H([a |-> "Close"])
    /\ UNCHANGED <<kind, listen, now, cnow, closeRet, dst, epoch0, sconn, dgo, qto, ugo, cpc, cres, cctx, con, answered, ust, own, att>>

Tick01 ==
    /\ EnvMay /\ (Eager => AllCalled)
    /\ now = 0 /\ now' = 1
    /\ H([a |-> "Tick01"])
    /\ UNCHANGED <<kind, listen, cnow, closed, closeRet, dst, epoch0, sconn, dgo, qto, ugo, cpc, cres, cctx, con, answered, ust, own, att>>

\* dial timeout + slack has certainly passed: only when nothing the timeout enables is still pending
Tick12 ==
    /\ EnvMay
    /\ now = 1 /\ ~Urgent /\ now' = 2
    /\ H([a |-> "Tick12"])
    /\ UNCHANGED <<kind, listen, cnow, closed, closeRet, dst, epoch0, sconn, dgo, qto, ugo, cpc, cres, cctx, con, answered, ust, own, att>>

CTick ==
    /\ EnvMay
    /\ closed /\ cnow = 0 /\ ~CUrgent /\ cnow' = 2
    /\ H([a |-> "CTick"])
    /\ UNCHANGED <<kind, listen, now, closed, closeRet, dst, epoch0, sconn, dgo, qto, ugo, cpc, cres, cctx, con, answered, ust, own, att>>

Next ==
    \/ \E c \in Calls : Call(c) \/ Attach(c) \/ CallLate(c) \/ RetOk(c) \/ RetErr(c) \/ RetTc(c) \/ Retry(c) \/ Answer(c) \/ Cancel(c)
                        \/ UdpTimeout(c) \/ Fallback(c) \/ \E tc \in BOOLEAN : UdpAnswer(c, tc)
    \/ \E d \in Dials : DialAbort(d) \/ ConnClose(d) \/ GoExit(d) \/ TcpAccept(d) \/ TcpRefuse(d) \/ HsComplete(d)
                        \/ SrvClose(d) \/ QueryTimeout(d)
    \/ UGoExit \/ CloseReturns \/ Close \/ Tick01 \/ Tick12 \/ CTick

Spec == Init /\ [][Next]_vars

\* system steps run; timers fire
FairSpec ==
    /\ Spec
    /\ \A c \in Calls : WF_vars(RetOk(c) \/ RetErr(c)) /\ WF_vars(UdpTimeout(c)) /\ WF_vars(Fallback(c)) /\ WF_vars(Attach(c))
    /\ \A d \in Dials : WF_vars(DialAbort(d)) /\ WF_vars(ConnClose(d)) /\ WF_vars(GoExit(d)) /\ WF_vars(QueryTimeout(d))
    /\ WF_vars(UGoExit) /\ WF_vars(CloseReturns) /\ WF_vars(Tick01)

------------------------------------------------------------------------------
\* properties

\* a dial that hangs in ANY phase has ended once the dial timeout (+ slack) has passed ...
DialEndsOnTimeout == now = 2 => \A d \in Dials : epoch0[d] => ~InProgress(d)
\* ... and so has every exchange that waited for it (only a call on an established connection may still wait)
ExchangeEndsOnDialTimeout ==
    now = 2 => \A c \in Calls : (Waiting(c) /\ con[c] # 0 /\ epoch0[con[c]]) => dst[con[c]] \in {"up", "closed"}
\* after Close every connection opened by a dial is closed and the dial / reader goroutines are gone
CloseCancelsDial ==
    cnow = 2 => /\ \A d \in Dials : dst[d] \in {"none", "failed", "closed"} /\ sconn[d] # "open" /\ ~dgo[d]
                /\ ~ugo
PendingCallsEndOnClose == cnow = 2 => (closeRet /\ \A c \in Calls : ~Waiting(c))
LaterCallsFailImmediately == (LateCall # 0 /\ cpc[LateCall] # "idle") => (cpc[LateCall] = "done" /\ cres[LateCall] = "err")
\* C01: a success is a reply the server sent for this call (never the truncated udp reply)
ResultSound == \A c \in Calls : cres[c] = "ok" => answered[c]

UpInv == DialEndsOnTimeout /\ ExchangeEndsOnDialTimeout /\ CloseCancelsDial /\ PendingCallsEndOnClose
         /\ LaterCallsFailImmediately /\ ResultSound

TypeOK ==
    /\ now \in {0, 1, 2} /\ cnow \in {0, 2}
    /\ \A d \in Dials : dst[d] \in {"none", "connecting", "handshaking", "up", "failed", "closed"}
    /\ \A d \in Dials : sconn[d] \in {"none", "open", "cclosed", "sclosed"}
    /\ \A c \in Calls : cpc[c] \in {"idle", "wait", "done"}

\* every exchange returns, whatever the server does (unbounded caller context)
Terminates == \A c \in Calls : Waiting(c) ~> (cpc[c] = "done")

------------------------------------------------------------------------------
Emit == AllDone =>
    PrintT(<<"BEH", ToJson([kind |-> kind, listen |-> listen, steps |-> hist])>>)

ViewNoHist == <<kind, listen, now, cnow, closed, closeRet, dst, epoch0, sconn, dgo, qto, ugo,
                cpc, cres, cctx, con, answered, att, own, ust>>
=============================================================================
