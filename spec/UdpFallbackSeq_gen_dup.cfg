\* leg B generator: 3 consecutive exchanges of any TC-ness, a stale duplicate of a finished exchange's UDP reply arriving during a later one
SPECIFICATION Spec
CONSTANTS
  N = 3
  MaxConn = 3
  MaxResend = 0
  MaxTries = 2
  MaxDup = 1
  TcChoices = {TRUE, FALSE}
  Overlap = FALSE
  Burst = 0
  EnvCancel = FALSE
  EnvClose = FALSE
  EnvDup = TRUE
  Matching = FALSE
  ReuseBusy = FALSE
  IdleOnCancel = FALSE
  ForgetKeepsIdle = FALSE
  DupAccepted = FALSE
  WithHist = TRUE
  Export = TRUE
INVARIANTS Emit
CHECK_DEADLOCK FALSE
