\* static copy for readers; checks/C19.py generates this text at run time through cachelib.cfg(): run on module CachePlugin_MC
\* leg B generator (-simulate)
SPECIFICATION Spec
CONSTANTS
  Names = {"n1"}
  Types = {"t1", "t2"}
  Classes = {"c1"}
  Flags = {0}
  Kinds = {"std"}
  KeyFields <- AllKey
  Resps <- RespsC19
  LazyTTLs = {0, 50}
  Ticks = {6, 25}
  MaxNow = 60
  MaxOps = 7
  NxMax = 30
  SfMax = 5
  EmptyMax = 300
  StaleTTL = 5
  TTLMode = "stored"
  Admit = "rule"
  Dedup = TRUE
  RefreshOwner = "asked"
  Alias = "none"
  DumpFields <- AllDump
  Insts = {1, 2}
  OpKinds = {"exec", "tick", "dump", "load", "cut"}
  MaxHandles = 0
  WithHist = TRUE
INVARIANTS Emit
CHECK_DEADLOCK FALSE
