------------------------------ MODULE IPSet ------------------------------
(***************************************************************************)
(* C13 — IP sets contain exactly the addresses their prefixes cover.       *)
(*                                                                         *)
(* Abstract universe: a W-bit "IPv6" address space 0..2^W-1.  The IPv4     *)
(* space is the W4 = W-L4 bit space that is identified with the block of   *)
(* the v6 space whose top L4 bits are b4 (the "::ffff:0:0/96" block): the  *)
(* v4 address x and the v6 address b4*2^W4 + x are the SAME address.  A    *)
(* prefix / address carries a family tag that only says in which notation  *)
(* it is written ("v4": dotted, "v6": colon form, mapped or not).          *)
(*                                                                         *)
(* CONTRACT (the property):                                                *)
(*   Covers(p, a), Contains(list, a) == \E p \in list: Covers(p, a)        *)
(*   written by cases natively in each family (no reference to the         *)
(*   implementation's normal form); ghost variable cov = covered addresses.*)
(*                                                                         *)
(* DESIGN (pkg/matcher/netlist/list.go), checked against the contract:     *)
(*   Append(p)   list.go:55-66   to6 + bits+=96 (Norm), Masked, append,    *)
(*                               sorted = false                            *)
(*   Sort        list.go:70-96   sort.Sort by base address (UNSTABLE: any  *)
(*                               permutation ordered by base), then the    *)
(*                               merge loop (MergeRec): equal base keeps   *)
(*                               the shorter prefix, otherwise keep n iff  *)
(*                               the last kept prefix does not contain it  *)
(*   Search      list.go:118-147 Contains: to6 (To6A), binary search for   *)
(*                               the last element with base <= addr (BS),  *)
(*                               Prefix.Contains on it                     *)
(*   PipelineOK: whenever sorted, Search(e, a) = (a \in cov) for EVERY     *)
(*   address of both families; checked by TLC for every ordered list of    *)
(*   prefixes (any host bits, duplicates, nesting, any Append/Sort         *)
(*   interleaving) within MaxLen.                                          *)
(* Deviation switches (non-vacuity): KeepRule = "longer" (merge keeps the  *)
(* longer of two equal-base prefixes), DoMask = FALSE (host bits kept).    *)
(***************************************************************************)
EXTENDS Integers, Sequences, FiniteSets, TLC, Json

CONSTANTS
    W,          \* bits of the abstract v6 space
    L4,         \* length of the block prefix that holds the v4 space (W4 = W - L4)
    B4s,        \* candidate values of the block's top bits (subset of 0..2^L4-1)
    Fams,       \* subset of {"v4", "v6"}: notations used
    HostBits,   \* TRUE: prefixes may carry arbitrary host bits
    MaxLen,     \* max number of loaded prefixes
    KeepRule,   \* "shorter" (code) | "longer" (deviation)
    DoMask,     \* TRUE (code) | FALSE (deviation: Masked() omitted)
    GenOnly,    \* TRUE: generator mode (multisets only: non-decreasing codes, no Sort action)
    EmitAll     \* TRUE: export a behaviour in every state (generator)

VARIABLES
    b4,       \* top bits of the v4 block (configuration, chosen in Init)
    inp,      \* history: the prefixes loaded, in load order, as given by the user
    cov,      \* ghost: addresses (both notations) covered per the CONTRACT
    e,        \* list.e : sequence of [base, len] in the W-bit space
    sorted    \* list.sorted

vars == <<b4, inp, cov, e, sorted>>

W4 == W - L4
Addr6 == 0 .. (2^W - 1)
Addr4 == 0 .. (2^W4 - 1)

Blk(x, n, w) == x \div (2^(w - n))
MaskTo(x, n, w) == Blk(x, n, w) * (2^(w - n))

P6 == {[fam |-> "v6", base |-> b, len |-> n] : b \in Addr6, n \in 0..W}
P4 == {[fam |-> "v4", base |-> b, len |-> n] : b \in Addr4, n \in 0..W4}
IsMasked(p) == p.base = MaskTo(p.base, p.len, IF p.fam = "v4" THEN W4 ELSE W)
Prefixes == {p \in (IF "v6" \in Fams THEN P6 ELSE {}) \cup (IF "v4" \in Fams THEN P4 ELSE {}) :
                HostBits \/ IsMasked(p)}

A6 == {[fam |-> "v6", v |-> x] : x \in Addr6}
A4 == {[fam |-> "v4", v |-> x] : x \in Addr4}
Addrs == A6 \cup (IF "v4" \in Fams THEN A4 ELSE {})

\* total order on prefixes (generator: enumerate multisets as non-decreasing sequences)
Code(p) == (IF p.fam = "v4" THEN (2^W) * (W + 1) ELSE 0) + p.base * (W + 1) + p.len

---------------------------------------------------------------------------
\* CONTRACT
InBlock4(x) == x \div (2^W4) = b4
Covers(p, a) ==
    CASE p.fam = "v4" /\ a.fam = "v4" -> Blk(a.v, p.len, W4) = Blk(p.base, p.len, W4)
      [] p.fam = "v4" /\ a.fam = "v6" -> /\ InBlock4(a.v)
                                         /\ Blk(a.v - b4 * (2^W4), p.len, W4) = Blk(p.base, p.len, W4)
      [] p.fam = "v6" /\ a.fam = "v4" -> Blk(b4 * (2^W4) + a.v, p.len, W) = Blk(p.base, p.len, W)
      [] p.fam = "v6" /\ a.fam = "v6" -> Blk(a.v, p.len, W) = Blk(p.base, p.len, W)
CoveredBy(p) == {a \in Addrs : Covers(p, a)}
Contains(list, a) == \E i \in 1..Len(list) : Covers(list[i], a)

---------------------------------------------------------------------------
\* DESIGN: the implementation's pipeline
To6A(a) == IF a.fam = "v4" THEN b4 * (2^W4) + a.v ELSE a.v
Norm(p) ==
    LET b == IF p.fam = "v4" THEN b4 * (2^W4) + p.base ELSE p.base
        n == IF p.fam = "v4" THEN p.len + L4 ELSE p.len
    IN [base |-> IF DoMask THEN MaskTo(b, n, W) ELSE b, len |-> n]
PContains(q, x) == Blk(x, q.len, W) = Blk(q.base, q.len, W)       \* netip.Prefix.Contains
Keep(n, lv) == IF KeepRule = "shorter" THEN n.len < lv.len ELSE n.len > lv.len

RECURSIVE MergeRec(_, _)
MergeRec(out, rest) ==
    IF rest = <<>> THEN out
    ELSE LET n == Head(rest) IN
         IF out = <<>> THEN MergeRec(<<n>>, Tail(rest))
         ELSE LET lv == out[Len(out)] IN
              IF n.base = lv.base
              THEN MergeRec(IF Keep(n, lv) THEN [out EXCEPT ![Len(out)] = n] ELSE out, Tail(rest))
              ELSE IF ~PContains(lv, n.base)
                   THEN MergeRec(Append(out, n), Tail(rest))
                   ELSE MergeRec(out, Tail(rest))

\* every outcome of an unstable sort by base address
SortedPerms(s) ==
    {t \in {[i \in 1..Len(s) |-> s[f[i]]] : f \in Permutations(1..Len(s))} :
        \A i \in 1..(Len(s) - 1) : t[i].base <= t[i + 1].base}

RECURSIVE BS(_, _, _, _)
BS(s, x, i, j) ==            \* Go indices i, j (0-based); s[h] in Go is s[h+1] here
    IF i < j
    THEN LET h == (i + j) \div 2 IN
         IF s[h + 1].base <= x THEN BS(s, x, h + 1, j) ELSE BS(s, x, i, h)
    ELSE i
Search(s, x) ==
    LET i == BS(s, x, 0, Len(s)) IN IF i = 0 THEN FALSE ELSE PContains(s[i], x)

---------------------------------------------------------------------------
Init ==
    /\ b4 \in B4s
    /\ inp = <<>> /\ cov = {} /\ e = <<>> /\ sorted = FALSE

DoAppend(p) ==
    /\ inp' = Append(inp, p)
    /\ cov' = cov \cup CoveredBy(p)
    /\ e' = Append(e, Norm(p))
    /\ sorted' = FALSE
    /\ UNCHANGED b4

AppendP(p) ==
    /\ Len(inp) < MaxLen
    /\ IF GenOnly /\ inp # <<>> THEN Code(inp[Len(inp)]) <= Code(p) ELSE TRUE
    /\ DoAppend(p)

Sort ==
    /\ ~GenOnly
    /\ IF sorted THEN UNCHANGED vars
       ELSE /\ \E s \in SortedPerms(e) : e' = MergeRec(<<>>, s)
            /\ sorted' = TRUE
            /\ UNCHANGED <<b4, inp, cov>>

Next == (\E p \in Prefixes : AppendP(p)) \/ Sort

Spec == Init /\ [][Next]_vars

View == <<b4, Len(inp), cov, e, sorted>>

---------------------------------------------------------------------------
\* Properties
TypeOK ==
    /\ cov \subseteq Addrs
    /\ cov = {a \in Addrs : Contains(inp, a)}

\* C13: the sorted/merged list answers exactly like the contract, for every address, both notations
PipelineOK == sorted => \A a \in Addrs : Search(e, To6A(a)) = (a \in cov)

\* C13, family clause: a v4 address and its mapped form are covered together
MappedSame ==
    ("v4" \in Fams) =>
        \A x \in Addr4 : ([fam |-> "v4", v |-> x] \in cov) <=> ([fam |-> "v6", v |-> b4 * (2^W4) + x] \in cov)

\* design lemma (not part of the property): result of Sort is strictly ordered and disjoint
SortedDisjoint ==
    sorted => \A i \in 1..(Len(e) - 1) : e[i].base < e[i + 1].base /\ ~PContains(e[i], e[i + 1].base)

C13Inv == PipelineOK /\ MappedSame

---------------------------------------------------------------------------
\* behaviour export (leg B): the multiset loaded and, for every abstract address, the expected answer
Bit(b) == IF b THEN 1 ELSE 0
Emit == EmitAll =>
    PrintT(<<"BEH", ToJson([b4 |-> b4,
                            ps |-> [i \in 1..Len(inp) |-> <<Bit(inp[i].fam = "v4"), inp[i].base, inp[i].len>>],
                            x6 |-> [i \in 1..(2^W) |-> Bit([fam |-> "v6", v |-> i - 1] \in cov)],
                            x4 |-> IF "v4" \in Fams
                                   THEN [i \in 1..(2^W4) |-> Bit([fam |-> "v4", v |-> i - 1] \in cov)]
                                   ELSE <<>>])>>)
=============================================================================
