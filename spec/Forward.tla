----------------------------- MODULE Forward -----------------------------
(***************************************************************************)
(* C14 -- plugin/executable/forward/forward.go : Forward.exchange          *)
(*                                                                         *)
(*   configuration (Init)  n = |U| (the list after tag selection), c the   *)
(*                         configured concurrency, k = clamp(c, 1, 3),     *)
(*                         start = rand.IntN(n)                            *)
(*   worker i in 1..k      Ask(i)       u.ExchangeContext called with a    *)
(*                                      private copy of the packed query   *)
(*                                      at position (start + i - 1) % n    *)
(*                         Finish(i,o)  the exchange returns outcome o     *)
(*                                      (environment; "never" = only the   *)
(*                                      worker's own 5 s timer ends it)    *)
(*                         Collect(i)   resChan <- res / <-resChan         *)
(*                                      (unbuffered: one rendezvous step;  *)
(*                                      includes the collector's decision) *)
(*                         QuitDone(i)  the worker's select takes <-done   *)
(*   collector / caller    CallerCtx    <-ctx.Done()                       *)
(*                         CloseDone    deferred close(done) on return     *)
(*   environment           Cancel       the caller's context ends          *)
(* Outcomes: good (NOERROR), nx (NXDOMAIN), bad (any other rcode), error,  *)
(* garbage (unparsable bytes), never.                                      *)
(* The deviation switch Bug exists only for the non-vacuity configs.       *)
(***************************************************************************)
EXTENDS Integers, Sequences, FiniteSets, TLC, Json

CONSTANTS
    Ns,          \* list lengths explored
    Cs,          \* configured concurrency values explored
    Outcomes,    \* subset of {"good","nx","bad","error","garbage","never"}
    EnvCancel,   \* the caller's context may end
    Eager,       \* generator filter: at most one thing is ready for the collector at a time
    WithHist,
    Bug          \* "none" | "first_any" | "wait_all" | "no_done" | "ignore_ctx" | "no_clamp" | "not_cyclic"

VARIABLES
    n, c, start,
    wpc,         \* worker pc: "init" | "asking" | "finished" | "quit"
    pos,         \* position asked by worker i (-1 before Ask)
    out,         \* outcome of worker i ("na" before Finish)
    collected,   \* worker ids in the order the collector received them
    cpc,         \* "collect" | "done"
    result,      \* [k |-> "none" | "reply" | "failed" | "ctx", w |-> worker]
    done, ctxDone,
    hist

vars == <<n, c, start, wpc, pos, out, collected, cpc, result, done, ctxDone, hist>>

\* named sets for the cfg files (a cfg cannot write a negative number)
CsFull == {-1, 0, 1, 2, 3, 5}
CsLive == {-1, 1, 2, 3, 5}
CsLow == {-1, 0, 1}

Clamp(x) == IF x <= 0 THEN 1 ELSE IF x > 3 THEN 3 ELSE x
K == IF Bug = "no_clamp" THEN (IF c <= 0 THEN 1 ELSE c) ELSE Clamp(c)
W == 1..K
Good(o) == o \in {"good", "nx"}
Reply(o) == o \in {"good", "nx", "bad"}
NoRes == [k |-> "none", w |-> 0]
H(e) == hist' = IF WithHist THEN Append(hist, e) ELSE hist

Init ==
    /\ n \in Ns /\ c \in Cs /\ start \in 0..(n - 1)
    /\ wpc = [i \in 1..5 |-> "init"] /\ pos = [i \in 1..5 |-> -1] /\ out = [i \in 1..5 |-> "na"]
    /\ collected = <<>> /\ cpc = "collect" /\ result = NoRes
    /\ done = FALSE /\ ctxDone = FALSE /\ hist = <<>>

------------------------------------------------------------------------------
Pending == {i \in W : wpc[i] = "finished"}
\* generator filter: nothing else becomes ready while the collector has something to take
Calm == ~Eager \/ cpc = "done" \/ (Pending = {} /\ ~ctxDone)

Ask(i) ==
    /\ i \in W /\ wpc[i] = "init"
    /\ Eager => \A j \in W : j < i => wpc[j] # "init"
    /\ wpc' = [wpc EXCEPT ![i] = "asking"]
    /\ pos' = [pos EXCEPT ![i] = IF Bug = "not_cyclic" THEN (IF start + i - 1 < n THEN start + i - 1 ELSE n - 1)
                                                      ELSE (start + i - 1) % n]
    /\ UNCHANGED <<n, c, start, out, collected, cpc, result, done, ctxDone, hist>>

Finish(i, o) ==
    /\ i \in W /\ wpc[i] = "asking" /\ o \in Outcomes
    /\ Calm
    /\ Eager => \A j \in W : wpc[j] # "init"
    /\ wpc' = [wpc EXCEPT ![i] = "finished"] /\ out' = [out EXCEPT ![i] = o]
    /\ H([a |-> "Finish", i |-> i, o |-> o])
    /\ UNCHANGED <<n, c, start, pos, collected, cpc, result, done, ctxDone>>

\* the collector's decision on the (Len(collected)+1)-th result
Collect(i) ==
    /\ i \in W /\ wpc[i] = "finished" /\ cpc = "collect"
    /\ wpc' = [wpc EXCEPT ![i] = "quit"]
    /\ collected' = Append(collected, i)
    /\ LET last == Len(collected) + 1 = K
           o == out[i]
       IN IF Bug = "first_any" /\ Reply(o)
            THEN cpc' = "done" /\ result' = [k |-> "reply", w |-> i]
          ELSE IF ~Reply(o)
            THEN IF last THEN cpc' = "done" /\ result' = [k |-> "failed", w |-> 0]
                         ELSE UNCHANGED <<cpc, result>>
          ELSE IF (Good(o) /\ Bug # "wait_all") \/ last
            THEN cpc' = "done" /\ result' = [k |-> "reply", w |-> i]
            ELSE UNCHANGED <<cpc, result>>
    /\ H([a |-> "Collect", i |-> i])
    /\ UNCHANGED <<n, c, start, pos, out, done, ctxDone>>

QuitDone(i) ==
    /\ i \in W /\ wpc[i] = "finished" /\ done /\ Bug # "no_done"
    /\ wpc' = [wpc EXCEPT ![i] = "quit"]
    /\ UNCHANGED <<n, c, start, pos, out, collected, cpc, result, done, ctxDone, hist>>

CallerCtx ==
    /\ cpc = "collect" /\ (ctxDone \/ Bug = "ctx_anytime") /\ Bug # "ignore_ctx"
    /\ Eager => Pending = {}
    /\ cpc' = "done" /\ result' = [k |-> "ctx", w |-> 0]
    /\ H([a |-> "CallerCtx"])
    /\ UNCHANGED <<n, c, start, wpc, pos, out, collected, done, ctxDone>>

CloseDone ==
    /\ cpc = "done" /\ ~done /\ done' = TRUE
    /\ UNCHANGED <<n, c, start, wpc, pos, out, collected, cpc, result, ctxDone, hist>>

Cancel ==
    /\ EnvCancel /\ ~ctxDone /\ ctxDone' = TRUE
    /\ Eager => (cpc = "collect" /\ Pending = {} /\ \A j \in W : wpc[j] # "init")
    /\ H([a |-> "Cancel"])
    /\ UNCHANGED <<n, c, start, wpc, pos, out, collected, cpc, result, done>>

Internal == \/ \E i \in 1..5 : Ask(i) \/ Collect(i) \/ QuitDone(i)
            \/ CallerCtx \/ CloseDone
Env == (\E i \in 1..5, o \in Outcomes : Finish(i, o)) \/ Cancel
Next == Internal \/ Env

Spec == Init /\ [][Next]_vars

\* no step of the code is enabled: it waits for the environment (a silent upstream, the caller)
Quiescent ==
    /\ \A i \in W : wpc[i] # "init"
    /\ cpc = "collect" => (Pending = {} /\ ~ctxDone)
    /\ cpc = "done" => (done /\ Pending = {})
\* the code makes progress on its own; upstreams need not answer
FairCode == Spec /\ WF_vars(Internal)
\* ... but every exchange ends at the latest when the worker's 5 s timer fires
FairAll == FairCode /\ WF_vars(\E i \in 1..5, o \in Outcomes : Finish(i, o))

------------------------------------------------------------------------------
\* C14

Returned == cpc = "done"
GoodCollected == {j \in 1..Len(collected) : Good(out[collected[j]])}
Min(S) == CHOOSE x \in S : \A y \in S : x <= y

\* exactly k = clamp(c,1,3) exchanges, at cyclically consecutive positions from one start
AskedSet ==
    /\ K = Clamp(c)
    /\ \A i \in 1..5 : (i \notin W) => wpc[i] = "init"
    /\ \E s \in 0..(n - 1) : \A i \in W : wpc[i] # "init" => pos[i] = (s + i - 1) % n

\* the first NOERROR/NXDOMAIN reply to arrive is returned, at once
FirstGoodWins ==
    (GoodCollected # {}) =>
        /\ Len(collected) = Min(GoodCollected)
        /\ Returned /\ (result.k = "reply" /\ result.w = collected[Min(GoodCollected)])

\* otherwise the last exchange to be collected decides: its reply whatever the rcode, else an error
LastDecides ==
    (Returned /\ result.k # "ctx" /\ GoodCollected = {}) =>
        /\ Len(collected) = K
        /\ LET w == collected[K] IN
             IF Reply(out[w]) THEN result = [k |-> "reply", w |-> w] ELSE result.k = "failed"

\* a failure / bad rcode is reported only if no queried upstream produced a good answer
NoMasking ==
    (Returned /\ (result.k = "failed" \/ (result.k = "reply" /\ ~Good(out[result.w])))) =>
        \A i \in W : ~Good(out[i])

\* a result is what was really received / the context's error only if it ended
ResultSound ==
    /\ result.k = "ctx" => ctxDone
    /\ result.k = "reply" => (result.w \in W /\ Reply(out[result.w]))
    /\ ~Returned => result = NoRes

C14Inv == AskedSet /\ FirstGoodWins /\ LastDecides /\ NoMasking /\ ResultSound

TypeOK ==
    /\ cpc \in {"collect", "done"}
    /\ \A i \in 1..5 : wpc[i] \in {"init", "asking", "finished", "quit"}
    /\ Len(collected) <= K

\* the call never outlives its context (FairCode: even if no upstream ever answers)
CtxBounds == ctxDone ~> Returned
\* the call ends and the helper goroutines end (FairAll: exchanges end within the 5 s timeout)
Terminates == <>Returned
WorkersQuit == <>(\A i \in W : wpc[i] = "quit")

------------------------------------------------------------------------------
AllEnded == Returned /\ done /\ \A i \in W : wpc[i] = "quit"
Emit == AllEnded =>
    PrintT(<<"BEH", ToJson([n |-> n, c |-> c, k |-> K, result |-> result,
                            outs |-> [i \in W |-> out[i]], steps |-> hist])>>)

ViewNoHist == <<n, c, start, wpc, pos, out, collected, cpc, result, done, ctxDone>>
=============================================================================
