SPECIFICATION TraceSpec
CONSTANTS
  Callers = {1, 2, 3, 4, 5, 6}
  IdVals = {0}
  Kinds = {"ok", "garbage", "short", "status"}
  EnvCancel = TRUE
  EnvAbort = TRUE
  Eager = FALSE
  WithHist = FALSE
  Deviation = "none"
CONSTRAINT HWM
POSTCONDITION Accepted
CHECK_DEADLOCK FALSE
