------------------------------- MODULE Addr -------------------------------
(***************************************************************************)
(* C18 - upstreams connect to exactly the address the user configured.     *)
(*                                                                         *)
(* pkg/upstream/upstream.go : NewUpstream    (address handling)            *)
(* pkg/upstream/utils.go    : tryTrimIpv6Brackets, trySplitHostPort,       *)
(*                            parseDialAddr, tryRemovePort                 *)
(*                                                                         *)
(* Two layers.                                                             *)
(*  CONTRACT  (what property C18 demands; the only thing leg B/C use):     *)
(*     Expected(a), MayReject(a), Unasserted(a), Allowed(a, o)             *)
(*  DESIGN    (a token-level model of the code's pipeline, leg A only):    *)
(*     Trim            = tryTrimIpv6Brackets      (TrimCut = 1; the pinned  *)
(*                       tree cuts 2 = defect D8)                          *)
(*     Split/TrySplit  = net.SplitHostPort / trySplitHostPort              *)
(*     ParseDial       = parseDialAddr            (DialPortRule = "url":   *)
(*                       dial_addr without port keeps the URL's port; the  *)
(*                       pinned tree uses "default" = defect D12)          *)
(*     RemovePort      = tryRemovePort            (SNI)                    *)
(*     ImplOutcome     = NewUpstream's switch: udp/tcp demand an IP        *)
(*  Leg A: ImplOutcome(a) \in Allowed(a) for EVERY address of the          *)
(*  property's quantifier (the whole product is the set of initial states).*)
(*                                                                         *)
(* A host text is a sequence of tokens [t, v]:                             *)
(*   "[" "]" ":"        literal characters                                 *)
(*   "u4" "un" "ug"     URL host: dotted quad / name / one IPv6 group      *)
(*   "d4" "dn" "dg"     dial_addr host, same                               *)
(*   "p" (v = number)   a port number                                      *)
(* The Go driver renders exactly these token sequences to text.            *)
(***************************************************************************)
EXTENDS Integers, Sequences, FiniteSets, TLC, Json

CONSTANTS
    Schemes,        \* subset of AllSchemes
    Ports,          \* port numbers explored (besides "omitted" = 0)
    TrimCut,        \* 1 = brackets removed exactly; 2 = pinned code (D8)
    DialPortRule,   \* "url" = dial_addr without port keeps the URL's port; "default" = pinned code (D12)
    PortCheck,      \* TRUE = a port above 65535 is refused; FALSE = deviation: truncated to 16 bit
    Export          \* TRUE: print every case (leg B generator)

VARIABLES a, o, pc
vars == <<a, o, pc>>

AllSchemes == {"udp", "tcp", "tcp+pipeline", "tls", "tls+pipeline", "https", "h3", "quic", "doq"}
MustIp     == {"udp", "tcp", "tcp+pipeline"}      \* plain protocols: no resolver, an IP is demanded
TlsSchemes == {"tls", "tls+pipeline", "https", "h3", "quic", "doq"}
HttpSchemes == {"https", "h3"}

DefPort(s) == IF s \in {"udp", "tcp", "tcp+pipeline"} THEN 53
              ELSE IF s \in {"tls", "tls+pipeline", "quic", "doq"} THEN 853 ELSE 443

V6Forms == {"mid", "lead", "full"}     \* g:g::g   ::g   g:g:g:g:g:g:g:g
HostForms == {[k |-> "v4", f |-> "plain"], [k |-> "name", f |-> "plain"]}
             \cup {[k |-> k, f |-> f] : k \in {"v6bare", "v6bracket"}, f \in V6Forms}
Dials == {[k |-> "none", f |-> "plain", p |-> 0], [k |-> "ip4", f |-> "plain", p |-> 0],
          [k |-> "host", f |-> "plain", p |-> 0]}
         \cup {[k |-> "ip6", f |-> f, p |-> 0] : f \in {"mid", "lead"}}
         \cup {[k |-> "ip4port", f |-> "plain", p |-> p] : p \in Ports}
         \cup {[k |-> "ip6port", f |-> f, p |-> p] : f \in {"mid", "lead"}, p \in Ports}

Cases == {[scheme |-> s, hk |-> h.k, form |-> h.f, port |-> p, dial |-> d.k, dform |-> d.f,
           dport |-> d.p, path |-> pa] :
          s \in Schemes, h \in HostForms, p \in {0} \cup Ports, d \in Dials, pa \in BOOLEAN}

\* field-wise shape test (used by the trace spec: any port number is admitted there)
IsCase(c) ==
    /\ DOMAIN c = {"scheme", "hk", "form", "port", "dial", "dform", "dport", "path"}
    /\ c.scheme \in AllSchemes
    /\ [k |-> c.hk, f |-> c.form] \in HostForms
    /\ c.port \in 0..99999 /\ c.dport \in 0..99999
    /\ c.path \in BOOLEAN
    /\ \E d \in {[k |-> "none", f |-> "plain"], [k |-> "ip4", f |-> "plain"], [k |-> "host", f |-> "plain"],
                 [k |-> "ip4port", f |-> "plain"], [k |-> "ip6", f |-> "mid"], [k |-> "ip6", f |-> "lead"],
                 [k |-> "ip6port", f |-> "mid"], [k |-> "ip6port", f |-> "lead"]} :
           d.k = c.dial /\ d.f = c.dform
    /\ (c.dport # 0) <=> (c.dial \in {"ip4port", "ip6port"})

(***************************************************************************)
(* CONTRACT                                                                *)
(***************************************************************************)
\* bare IPv6 followed by ":port" has two readings (RFC 3986 demands brackets): nothing is asserted
Unasserted(c) == c.hk = "v6bare" /\ c.port # 0

EffHostIsName(c) == IF c.dial # "none" THEN c.dial = "host" ELSE c.hk = "name"

\* a port number above 65535 cannot be honoured: the address must be refused, never altered
BadPort(p) == p > 65535
MustReject(c) == BadPort(c.port) \/ BadPort(c.dport)

\* combinations the implementation may refuse when the upstream is created
MayReject(c) == (c.scheme \in MustIp /\ EffHostIsName(c)) \/ c.hk = "v6bare"

Expected(c) ==
    [host |-> IF c.dial = "none" THEN "url" ELSE "dial",
     port |-> IF c.dport # 0 THEN c.dport ELSE IF c.port # 0 THEN c.port ELSE DefPort(c.scheme),
     sni  |-> IF c.scheme \in TlsSchemes THEN "url" ELSE "na"]

Rejected == [created |-> FALSE, host |-> "na", port |-> 0, sni |-> "na"]
Conn(h, p, s) == [created |-> TRUE, host |-> h, port |-> p, sni |-> s]

\* o: what the real upstream did (a refusal, or one connection it opened)
Allowed(c, x) ==
    \/ Unasserted(c)
    \/ ~x.created /\ (MayReject(c) \/ MustReject(c))
    \/ /\ x.created /\ ~MustReject(c)
       /\ x.host = Expected(c).host
       /\ x.port = Expected(c).port
       /\ x.sni = Expected(c).sni

(***************************************************************************)
(* DESIGN: token model of the code                                         *)
(***************************************************************************)
T(t) == [t |-> t, v |-> 0]
P(n) == [t |-> "p", v |-> n]
Colon == T(":")

V6Tok(g, f) ==
    IF f = "mid" THEN <<T(g), Colon, T(g), Colon, Colon, T(g)>>
    ELSE IF f = "lead" THEN <<Colon, Colon, T(g)>>
    ELSE <<T(g), Colon, T(g), Colon, T(g), Colon, T(g), Colon, T(g), Colon, T(g), Colon, T(g), Colon, T(g)>>

UrlBare(c) == IF c.hk = "v4" THEN <<T("u4")>> ELSE IF c.hk = "name" THEN <<T("un")>> ELSE V6Tok("ug", c.form)
PortTok(p) == IF p = 0 THEN <<>> ELSE <<Colon, P(p)>>
UrlHostTok(c) == (IF c.hk = "v6bracket" THEN <<T("[")>> \o UrlBare(c) \o <<T("]")>> ELSE UrlBare(c)) \o PortTok(c.port)

DialBare(c) == IF c.dial \in {"ip4", "ip4port"} THEN <<T("d4")>>
               ELSE IF c.dial = "host" THEN <<T("dn")>>
               ELSE IF c.dial \in {"ip6", "ip6port"} THEN V6Tok("dg", c.dform) ELSE <<>>
DialTok(c) == IF c.dial = "ip6port" THEN <<T("[")>> \o DialBare(c) \o <<T("]")>> \o PortTok(c.dport)
              ELSE DialBare(c) \o PortTok(c.dport)

Max(S) == CHOOSE x \in S : \A y \in S : y <= x
Min(S) == CHOOSE x \in S : \A y \in S : x <= y

\* tryTrimIpv6Brackets: Go s[1:len(s)-TrimCut]
Trim(s) == IF Len(s) >= 2 /\ s[1] = T("[") /\ s[Len(s)] = T("]") THEN SubSeq(s, 2, Len(s) - TrimCut) ELSE s

\* net.SplitHostPort
NoSplit == [ok |-> FALSE, host |-> <<>>, port |-> <<>>]
Split(s) ==
    LET I == {i \in 1..Len(s) : s[i] = Colon} IN
    IF I = {} THEN NoSplit
    ELSE LET i == Max(I) IN
         IF s[1] = T("[")
         THEN LET E == {e \in 1..Len(s) : s[e] = T("]")} IN
              IF E = {} \/ Min(E) + 1 # i THEN NoSplit
              ELSE [ok |-> TRUE, host |-> SubSeq(s, 2, Min(E) - 1), port |-> SubSeq(s, i + 1, Len(s))]
         ELSE IF \E k \in 1..(i - 1) : s[k] = Colon THEN NoSplit
              ELSE [ok |-> TRUE, host |-> SubSeq(s, 1, i - 1), port |-> SubSeq(s, i + 1, Len(s))]

\* trySplitHostPort: [err, host, port]; port 0 = none
TrySplit(s) ==
    LET r == Split(s) IN
    IF ~r.ok THEN [err |-> FALSE, host |-> s, port |-> 0]
    ELSE IF Len(r.port) = 1 /\ r.port[1].t = "p" /\ (r.port[1].v <= 65535 \/ ~PortCheck)
         THEN [err |-> FALSE, host |-> r.host, port |-> r.port[1].v % 65536]     \* strconv.ParseUint(s, 10, 16)
    ELSE [err |-> TRUE, host |-> <<>>, port |-> 0]

\* parseDialAddr(urlHost, dialAddr, defaultPort)
ParseDial(uh, dt, def) ==
    LET r == TrySplit(IF dt # <<>> THEN dt ELSE uh)
        u == TrySplit(uh)
        fallback == IF DialPortRule = "url" /\ dt # <<>> /\ ~u.err /\ u.port # 0 THEN u.port ELSE def
    IN [err |-> r.err \/ u.err, host |-> r.host, port |-> IF r.port = 0 THEN fallback ELSE r.port]

RemovePort(s) == LET r == Split(s) IN IF r.ok THEN r.host ELSE s

\* netip.ParseAddr succeeds (token level)
Groups(h) == {i \in 1..Len(h) : h[i].t \in {"ug", "dg"}}
DblAt(h)  == {i \in 1..(Len(h) - 1) : h[i] = Colon /\ h[i + 1] = Colon}
V6Valid(h) ==
    /\ Len(h) >= 2
    /\ \A i \in 1..Len(h) : h[i] = Colon \/ i \in Groups(h)
    /\ \A i \in 1..(Len(h) - 1) : ~(i \in Groups(h) /\ (i + 1) \in Groups(h))
    /\ Cardinality(DblAt(h)) <= 1
    /\ (h[1] = Colon => 1 \in DblAt(h))
    /\ (h[Len(h)] = Colon => (Len(h) - 1) \in DblAt(h))
    /\ IF DblAt(h) = {} THEN Cardinality(Groups(h)) = 8 ELSE Cardinality(Groups(h)) <= 7
IsIP(h) == h \in {<<T("u4")>>, <<T("d4")>>} \/ V6Valid(h)

ImplOutcome(c) ==
    LET uh == Trim(UrlHostTok(c))
        d  == ParseDial(uh, DialTok(c), DefPort(c.scheme))
        cls(h) == IF h = UrlBare(c) THEN "url" ELSE IF c.dial # "none" /\ h = DialBare(c) THEN "dial" ELSE "other"
        sni == IF c.scheme \notin TlsSchemes THEN "na"
               ELSE IF c.scheme \in HttpSchemes THEN "url"     \* net/http derives it from the URL (trusted)
               ELSE cls(RemovePort(uh))
    IN IF d.err THEN Rejected
       ELSE IF c.scheme \in MustIp /\ ~IsIP(d.host) THEN Rejected
       ELSE Conn(cls(d.host), d.port, sni)

(***************************************************************************)
(* State machine: one address, one outcome                                 *)
(***************************************************************************)
Init == a \in Cases /\ o = Rejected /\ pc = "new"
Run  == pc = "new" /\ o' = ImplOutcome(a) /\ pc' = "done" /\ UNCHANGED a
Next == Run
Spec == Init /\ [][Next]_vars

TypeOK == IsCase(a) /\ pc \in {"new", "done", "created", "conn", "rejected", "end"}
                    /\ o.created \in BOOLEAN /\ o.port \in 0..99999

\* C18
C18Inv == pc \in {"done", "conn", "rejected"} => Allowed(a, o)

\* sanity lemmas on the contract itself
PortDefined == ~MustReject(a) => Expected(a).port \in 1..65535
BracketInsensitive == a.hk = "v6bracket" => Expected(a) = Expected([a EXCEPT !.hk = "v6bare"])
SniNeverDial == Expected(a).sni # "dial"
DefaultOnlyWhenOmitted == (a.port # 0 \/ a.dport # 0) => Expected(a).port \in {a.port, a.dport}

Emit == (Export /\ pc = "new") =>
    PrintT(<<"BEH", ToJson([a |-> a, url |-> UrlHostTok(a), dial |-> DialTok(a), exp |-> Expected(a),
                            mayReject |-> MayReject(a), mustReject |-> MustReject(a),
                            unasserted |-> Unasserted(a)])>>)
=============================================================================
