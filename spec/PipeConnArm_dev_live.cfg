\* non-vacuity of the liveness property: with D11 a silent server is never detected within the horizon
SPECIFICATION FairSpec
CONSTANTS
  Callers = {0, 1}
  MaxCalls = 1
  MaxCancel = 1
  DEV = {"idle_overwrites"}
  WithHist = FALSE
INVARIANTS TypeOK 
VIEW ViewNoHist
CHECK_DEADLOCK FALSE
PROPERTIES SilenceEnds
