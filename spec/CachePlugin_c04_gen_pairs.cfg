\* static copy for readers; checks/C04.py generates this text at run time through cachelib.cfg(): run on module CachePlugin_MC
\* leg B generator: all ordered pairs of questions
SPECIFICATION Spec
CONSTANTS
  Names = {"n1", "n2"}
  Types = {"t1", "t2"}
  Classes = {"c1", "c2"}
  Flags = {0, 1, 2, 3, 4, 5, 6, 7}
  Kinds = {"std"}
  KeyFields <- AllKey
  Resps <- RespsOne
  LazyTTLs = {0}
  Ticks = {1}
  MaxNow = 0
  MaxOps = 2
  NxMax = 30
  SfMax = 5
  EmptyMax = 300
  StaleTTL = 5
  TTLMode = "stored"
  Admit = "rule"
  Dedup = TRUE
  RefreshOwner = "asked"
  Alias = "none"
  DumpFields <- AllDump
  Insts = {1}
  OpKinds = {"exec"}
  MaxHandles = 0
  WithHist = TRUE
INVARIANTS Emit
CHECK_DEADLOCK FALSE
