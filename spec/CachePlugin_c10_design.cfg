\* static copy for readers; checks/C10.py generates this text at run time through cachelib.cfg(): run on module CachePlugin_MC
\* leg A C10
SPECIFICATION Spec
CONSTANTS
  Names = {"n1"}
  Types = {"t1", "t2"}
  Classes = {"c1"}
  Flags = {0}
  Kinds = {"std"}
  KeyFields <- AllKey
  Resps <- RespsC10
  LazyTTLs = {0}
  Ticks = {1}
  MaxNow = 0
  MaxOps = 7
  NxMax = 30
  SfMax = 5
  EmptyMax = 300
  StaleTTL = 5
  TTLMode = "stored"
  Admit = "rule"
  Dedup = TRUE
  RefreshOwner = "asked"
  Alias = "none"
  DumpFields <- AllDump
  Insts = {1}
  OpKinds = {"exec", "mutate"}
  MaxHandles = 4
  WithHist = FALSE
VIEW ViewNoHist
INVARIANTS TypeOK NoSharing BypassRule TTLRule StaleRule AdmissionRule NeverServedAfterExpiry AtMostOneRefresh Isolation HitId RestartTransparent
CHECK_DEADLOCK FALSE
