\* PipeConn_dev_off1.cfg6
SPECIFICATION Spec
CONSTANTS
  Callers = {0, 1}
  M = 4
  MaxCqs = {1}
  MaxCalls = 1
  StartQids = {3}
  Datagrams = {FALSE}
  UNBUFFERED_HANDOFF = FALSE
  RANDOM_SELECT = FALSE
  DOUBLE_COUNT = FALSE
  DEV = {"off_by_one"}
  MaxStray = 0
  MaxDup = 0
  MaxCancel = 0
  MaxFault = 0
  StrictClosed = FALSE
  GenFocus = "none"
  WithHist = FALSE
INVARIANTS Limit
VIEW ViewNoHist
CHECK_DEADLOCK FALSE
