\* non-vacuity / seeded C07-1 on the pinned reader: waitingResp stays set after an unmatched (late) reply (the re-check of the design masks this deviation)
SPECIFICATION Spec
CONSTANTS
  Callers = {0, 1}
  MaxCalls = 2
  MaxCancel = 1
  DEV = {"no_clear_on_unmatched", "idle_overwrites"}
  WithHist = FALSE
INVARIANTS TypeOK ArmedIsShortWhenOwed
VIEW ViewNoHist
CHECK_DEADLOCK FALSE
