\* leg B generator: every program within the bound with the log every run must produce
\* (concurrent copies scheduled one after the other: per-run logs do not depend on the interleaving)
SPECIFICATION Spec
CONSTANTS
  MaxSeq = 2
  MaxRules = 2
  MaxMatch = 0
  MKinds = {"T", "F", "E"}
  Negs = {TRUE, FALSE}
  Acts = {"nop", "accept", "return", "jump", "goto", "wpost", "reject"}
  RejectCodes = {5, 3}
  MaxMulti = 1
  MaxConc = 1
  Sched = "det"
  Bug = "none"
INVARIANTS Emit
CHECK_DEADLOCK FALSE
