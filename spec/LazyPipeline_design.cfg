\* leg A quick: 2 calls, all environment actions, liveness
SPECIFICATION FairSpec
CONSTANTS
  NCalls = 2
  MaxDials = 2
  QueueLimit = 2
  ConnCap = 2
  Policy = "code"
  MaxRetry = 2
  AttemptBound = 4
  Dev = {}
  NoWgWait = FALSE
  ExactScan = TRUE
  MaxFaults = 2
  Kinds = {"stale", "dead"}
  CancelCalls = {1}
  EnvTClose = TRUE
  OrderedStart = TRUE
  Eager = FALSE
  WithHist = FALSE
VIEW ViewNoHist
INVARIANTS TypeOK FailOnlyWhen AttemptsBounded ErrOnFault ClosedRejects CloseClosesAll QueueBound CapBound NoSpuriousRefusal NoLeak
PROPERTIES CallsEnd Released
CHECK_DEADLOCK FALSE
