\* leg A: termination of the call and of the helper goroutines when every exchange ends (5 s timeout)
SPECIFICATION FairAll
CONSTANTS
  Ns = {1, 2, 3}
  Cs <- CsLive
  Outcomes = {"good", "bad", "error"}
  EnvCancel = TRUE
  Eager = FALSE
  WithHist = FALSE
  Bug = "none"
VIEW ViewNoHist
PROPERTIES Terminates WorkersQuit
CHECK_DEADLOCK FALSE
