\* design-level window: setIdle before the hand-over lets another call close the connection first
SPECIFICATION Spec
CONSTANTS
  NCalls = 2
  MaxDials = 2
  Policy = "code"
  MaxRetry = 2
  AttemptBound = 4
  RandomSelect = FALSE
  LockInOnce = FALSE
  Dev = {}
  MaxFaults = 1
  Kinds = {"eof"}
  OrderedStart = TRUE
  CancelCalls = {}
  EnvTClose = FALSE
  Coarse = TRUE
  Eager = FALSE
  WithHist = FALSE
VIEW ViewNoHist
INVARIANTS NoLossStrict

CHECK_DEADLOCK FALSE
