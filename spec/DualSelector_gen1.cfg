SPECIFICATION Spec
CONSTANTS
  Kinds = {"pref", "nonpref", "other"}
  MaxCalls = 1
  TimerMays = {TRUE, FALSE}
  EnvCancel = TRUE
  WithHist = TRUE
  CACHE_ON_ANY = FALSE
INVARIANTS Emit
CHECK_DEADLOCK FALSE
