------------------------- MODULE ReuseConn_Trace -------------------------
(***************************************************************************)
(* Leg C: traces recorded by harness/drv_pool (mode "reuse") from the real *)
(* ReuseConnTransport over scripted simnet connections, checked against    *)
(* ReuseConn.tla.                                                          *)
(* Logged (one ndjson line each; x = connection = number of its dial):     *)
(*   Reset                          new trace                              *)
(*   Start(c) Cancel(c)             controller starts call c / cancels it  *)
(*   Dial(d) DialRet(d, ok)         dial function invoked / released       *)
(*   SetDeadline(x, k)              exchange arms a deadline of kind k     *)
(*   WriteReq(x, c) WriteRet(x, c, ok)   Write posted / completed          *)
(*   ReadRet(x, k, ...)             the reader's Read returned: k = reply  *)
(*                                  (to c's query), err, timeout(armed)    *)
(*   SetReadDeadline(x, k)          readLoop arms a deadline               *)
(*   CloseReq(x)                    Close() called on the connection       *)
(*   TClose TCloseRet               transport Close called / returned      *)
(*   Return(c, res, vc, vw)         ExchangeContext returned (observed);   *)
(*                                  vc, vw = call and write ordinal the    *)
(*                                  returned reply answers                 *)
(* Everything else is a silent step chosen by TLC.  The fault that makes   *)
(* an error possible (Kill) is inferred lazily right before the error.     *)
(* The invariants are conjoined to the step: a trace is accepted iff SOME  *)
(* behaviour of the spec explains it and satisfies them throughout.        *)
(***************************************************************************)
EXTENDS ReuseConn, IOUtils

VARIABLE l

Trace == ndJsonDeserialize(IOEnv.TRACE_FILE)
tvars == <<vars, l>>
Ev == Trace[l]
IsEvent(e) == l <= Len(Trace) /\ Ev.ev = e /\ l' = l + 1

TraceInit == l = 1 /\ Init

Reset ==
    /\ IsEvent("Reset")
    /\ pc' = [c \in Calls |-> "na"] /\ att' = [c \in Calls |-> 0]
    /\ isNew' = [c \in Calls |-> FALSE] /\ cur' = [c \in Calls |-> 0]
    /\ slot' = [c \in Calls |-> None] /\ ctxDone' = [c \in Calls |-> FALSE]
    /\ res' = [c \in Calls |-> "na"] /\ mydial' = [c \in Calls |-> 0]
    /\ writes' = [c \in Calls |-> 0] /\ used' = [c \in Calls |-> {}]
    /\ delivered' = [c \in Calls |-> FALSE] /\ failOK' = [c \in Calls |-> TRUE]
    /\ startedClosed' = [c \in Calls |-> FALSE] /\ val' = [c \in Calls |-> None]
    /\ dialedFor' = [c \in Calls |-> 0] /\ wok' = [c \in Calls |-> FALSE] /\ shared' = [c \in Calls |-> FALSE]
    /\ health' = [x \in ConnIds |-> "na"] /\ closed' = [x \in ConnIds |-> FALSE]
    /\ once' = [x \in ConnIds |-> FREE] /\ waiting' = [x \in ConnIds |-> None]
    /\ armed' = [x \in ConnIds |-> "none"] /\ srvq' = [x \in ConnIds |-> None]
    /\ owe' = [x \in ConnIds |-> FALSE]
    /\ rpc' = [x \in ConnIds |-> "off"] /\ rmsg' = [x \in ConnIds |-> None] /\ rw' = [x \in ConnIds |-> None]
    /\ tclosed' = FALSE /\ tm' = "free" /\ conns' = {} /\ idle' = {} /\ tctx' = FALSE /\ cl' = "idle"
    /\ nd' = 0 /\ dl' = [d \in ConnIds |-> [owner |-> 0, st |-> "unused"]] /\ spawn' = {}
    /\ panic' = FALSE /\ unexp' = FALSE /\ hist' = <<>>

\* the closing variants of the actions that may call Close() on connection x
ClosesNow(x) ==
    \/ \E c \in Calls : cur[c] = x /\ CweWillClose(c, x) /\ CallCweB(c)
    \/ CweWillClose(RDR, x) /\ RdrCweB(x)
    \/ once[x] = FREE /\ TCloseOne(x)
    \/ tclosed /\ Register(x)

Logged ==
    \/ IsEvent("Start") /\ Start(Ev.c)
    \/ IsEvent("Cancel") /\ (Cancel(Ev.c) \/ (pc[Ev.c] = "done" /\ UNCHANGED vars))
    \/ IsEvent("Dial") /\ nd + 1 = Ev.d /\ \E c \in Calls : DialInvoke(c)
    \/ IsEvent("DialRet") /\ IF Ev.ok THEN DialOk(Ev.d) ELSE DialErr(Ev.d)
    \/ IsEvent("SetDeadline") /\ \E c \in Calls : cur[c] = Ev.x /\ ArmQ(c, Ev.k)
    \* wok: the bytes written are exactly the framed query of call c (also on a retry)
    \/ IsEvent("WriteReq") /\ Ev.wok /\ cur[Ev.c] = Ev.x /\ WriteReq(Ev.c)
    \/ IsEvent("WriteRet") /\ cur[Ev.c] = Ev.x /\ IF Ev.ok THEN WriteOk(Ev.c) ELSE WriteErr(Ev.c)
    \/ IsEvent("ReadRet") /\ Ev.k = "reply" /\ srvq[Ev.x] # None /\ srvq[Ev.x][1] = Ev.c /\ ServerReply(Ev.x)
    \/ IsEvent("ReadRet") /\ Ev.k = "surplus" /\ Surplus(Ev.x)
    \/ IsEvent("ReadRet") /\ Ev.k = "err" /\ ReadFail(Ev.x, "err")
    \/ IsEvent("ReadRet") /\ Ev.k = "timeout" /\ armed[Ev.x] = Ev.armed /\ ReadFail(Ev.x, "timeout")
    \/ IsEvent("SetReadDeadline") /\ ArmIdle(Ev.x, Ev.k)
    \/ IsEvent("CloseReq") /\ ClosesNow(Ev.x)
    \/ IsEvent("TClose") /\ TCloseStart
    \/ IsEvent("TCloseRet") /\ TCloseObs
    \/ IsEvent("Return") /\ pc[Ev.c] = "done" /\ UNCHANGED vars
         /\ \/ Ev.res = "ok" /\ res[Ev.c] = "ok" /\ val[Ev.c] # None /\ Ev.vc = val[Ev.c][1]
                             /\ Ev.vc = Ev.c /\ Ev.vw = writes[Ev.c]
            \/ Ev.res = "ctx" /\ res[Ev.c] # "ok" /\ ctxDone[Ev.c]          \* the right error class
            \/ Ev.res = "tclosed" /\ res[Ev.c] # "ok" /\ tclosed
            \/ Ev.res = "other" /\ res[Ev.c] \notin {"ok", "ctx"}

\* the fault that explains the next logged error is inferred right before it
NextIsErrOn(x) ==
    /\ l <= Len(Trace)
    /\ \/ Ev.ev = "WriteRet" /\ ~Ev.ok /\ Ev.x = x
       \/ Ev.ev = "ReadRet" /\ Ev.k = "err" /\ Ev.x = x

Silent ==
    /\ l <= Len(Trace)
    /\ UNCHANGED l
    /\ \/ \E c \in Calls : \/ GetIdle(c) \/ LeaveCtx(c) \/ LeaveClosed(c) \/ Install(c) \/ TakeReply(c)
                            \/ SeeClose(c) \/ SeeCtx(c) \/ Retry(c) \/ Fail(c) \/ CallCweA(c)
                            \/ (pc[c] = "cweB" /\ ~CweWillClose(c, cur[c]) /\ CallCweB(c))
       \/ \E x \in ConnIds : \/ Take(x) \/ Forget(x) \/ SetIdle(x) \/ Hand(x) \/ RdrCweA(x)
                              \/ (~CweWillClose(RDR, x) /\ RdrCweB(x))
                              \/ (~tclosed /\ Register(x)) \/ HandOver(x) \/ Abandon(x)
                              \/ (once[x] # FREE /\ TCloseOne(x))
                              \/ (NextIsErrOn(x) /\ Kill(x, "eof"))
       \/ TCloseLock \/ TCloseEnd

TraceNext == (Reset \/ Logged \/ Silent) /\ ReuseInv'

TraceSpec == TraceInit /\ [][TraceNext]_tvars

\* high-water mark of the trace position (needs -workers 1); depth-first search (StateDeque) stops as soon as
\* one complete explanation has been found
HWM == TLCSet(1, IF TLCGet(1) < l THEN l ELSE TLCGet(1)) /\ (l = Len(Trace) + 1 => TLCSet("exit", TRUE))
HWMInit == TLCSet(1, 0)
ASSUME HWMInit
Accepted == PrintT(<<"HWM", TLCGet(1), Len(Trace)>>)
=============================================================================
