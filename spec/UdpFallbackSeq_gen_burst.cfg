\* leg B generator (simulation): 4 overlapping truncated exchanges -> 4 pooled connections, all answered, the server closes all 4, the client notices, a 5th exchange
SPECIFICATION Spec
CONSTANTS
  N = 5
  MaxConn = 5
  MaxResend = 0
  MaxTries = 4
  MaxDup = 1
  TcChoices = {TRUE}
  Overlap = FALSE
  Burst = 4
  EnvCancel = FALSE
  EnvClose = TRUE
  EnvDup = FALSE
  Matching = FALSE
  ReuseBusy = FALSE
  IdleOnCancel = FALSE
  ForgetKeepsIdle = FALSE
  DupAccepted = FALSE
  WithHist = TRUE
  Export = TRUE
INVARIANTS Emit
CHECK_DEADLOCK FALSE
