\* leg A (C03): all plugin kinds, chains up to MaxLen, all query shapes, both transports
SPECIFICATION Spec
CONSTANTS
  Kinds = {"reject", "accept", "local", "ttl", "redirect", "cache", "ecs", "fwdopt", "up", "sub"}
  MaxLen = 3
  Mals = {"ok", "ok1x", "qr", "noq", "twoq", "ans", "ns", "extra2", "opt2"}
  CSizes = {0, 1232}
  COptSets <- NoOptions
  CVers = {0}
  WithNoOpt = TRUE
  UMsgs <- UMsgsA
  UOptSets <- UOptsFew
  Transports = {"udp", "tcp"}
  Caches = {"empty", "own", "redir"}
  Dev = {}
  WithHist = FALSE
VIEW View
INVARIANTS TypeOK ReplyShape PluginContract CacheEntrySound ReplyOptIffClientOpt DoMirrored OptNeverDuplicatedOrAltered
CHECK_DEADLOCK FALSE
