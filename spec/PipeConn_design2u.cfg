\* PipeConn_design2u.cfg6
SPECIFICATION Spec
CONSTANTS
  Callers = {0, 1}
  M = 4
  MaxCqs = {1, 2}
  MaxCalls = 1
  StartQids = {3}
  Datagrams = {TRUE}
  UNBUFFERED_HANDOFF = FALSE
  RANDOM_SELECT = FALSE
  DOUBLE_COUNT = FALSE
  DEV = {}
  MaxStray = 0
  MaxDup = 1
  MaxCancel = 1
  MaxFault = 1
  StrictClosed = FALSE
  GenFocus = "none"
  WithHist = FALSE
INVARIANTS TypeOK OwnReply NoStrayDelivered NoLoss Limit ExactAccounting NoUnderflow NoSpuriousRefusal QuiescentFree
VIEW ViewNoHist
CHECK_DEADLOCK FALSE
