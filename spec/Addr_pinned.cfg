\* non-vacuity: the pinned bracket trimming (s[1:len(s)-2], D8) must violate C18Inv
SPECIFICATION Spec
CONSTANTS
  Schemes = {"udp", "tcp", "tcp+pipeline", "tls", "tls+pipeline", "https", "h3", "quic", "doq"}
  Ports = {1, 53, 443, 853, 65535, 65589, 70000}
  TrimCut = 2
  DialPortRule = "url"
  PortCheck = TRUE
  Export = FALSE
INVARIANTS C18Inv
CHECK_DEADLOCK FALSE
