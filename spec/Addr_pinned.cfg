\* non-vacuity: the pinned bracket trimming (s[1:len(s)-2], D8) must violate C18Inv
SPECIFICATION Spec
CONSTANTS
  Schemes = {"udp", "tcp", "tcp+pipeline", "tls", "tls+pipeline", "https", "h3", "quic"}
  Ports = {1, 53, 443, 853, 5353, 65535}
  TrimCut = 2
  DialPortRule = "url"
  Export = FALSE
INVARIANTS C18Inv
CHECK_DEADLOCK FALSE
