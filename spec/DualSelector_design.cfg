SPECIFICATION FairSpec
CONSTANTS
  Kinds = {"pref", "nonpref", "other"}
  MaxCalls = 3
  TimerMays = {TRUE, FALSE}
  EnvCancel = TRUE
  WithHist = FALSE
  CACHE_ON_ANY = FALSE
INVARIANTS TypeOK BlockedOnlyIfPreferredExists OrigOnlyWhen CacheSound CachedBlocksAtOnce ResultSound
PROPERTIES CallEnds
CHECK_DEADLOCK FALSE
