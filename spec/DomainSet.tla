---------------------------- MODULE DomainSet ----------------------------
(***************************************************************************)
(* C12 — domain rules match exactly the names they describe.               *)
(*                                                                         *)
(* Abstract universe.  Characters are the fragments "E", "B", "C" and the  *)
(* separator ".".  Labels: a = <<E,B>>, b = <<B>>, c = <<C>>  — so b is a  *)
(* proper STRING suffix of a ("ample" / "example"), which makes "string    *)
(* suffix vs label suffix" and partial-label keywords visible inside the   *)
(* spec.  A name is a non-empty sequence of labels; Str(name) is its       *)
(* dotted string (already normalised: case folding and the one trailing    *)
(* dot are part of the concretization contract, see drv_domain).           *)
(*                                                                         *)
(* CONTRACT (the property):                                                *)
(*   Matches(r, name) per effective type (a rule of type "none" has the    *)
(*   set's default type):                                                  *)
(*     full    : pattern labels = name                                     *)
(*     domain  : pattern is a LABEL suffix of name (empty matches all)     *)
(*     keyword : pattern string is a substring of Str(name)                *)
(*     regexp  : family  ^p  p$  (^|\.)p$  ^p$  p   on Str(name), plus     *)
(*               \S+\.p$  ^p\.\S+$  ^P (upper case): expression text is   *)
(*               never case-folded                                         *)
(*   Allowed(name) = indices of the rules whose value may be returned:     *)
(*     the full match (later duplicate overrides), else the LONGEST        *)
(*     matching domain rule (later duplicate overrides), else ANY matching *)
(*     regexp, else ANY matching keyword.  Every rule's value is its index.*)
(*                                                                         *)
(* DESIGN (pkg/matcher/domain), checked against the contract by TLC:       *)
(*   Add(r)      matcher.go:232 MixMatcher.Add: split type, default type,  *)
(*               dispatch; FullMatcher map (matcher.go:95), label trie     *)
(*               (SubDomainMatcher.Add matcher.go:66, utils.go labelNode), *)
(*               RegexMatcher map keyed by expression (matcher.go:158),    *)
(*               KeywordMatcher map (matcher.go:125)                       *)
(*   ImplMatch   matcher.go:249 MixMatcher.Match: full, domain, regexp,    *)
(*               keyword in this order; SubDomainMatcher.Match             *)
(*               (matcher.go:43) walks the trie right-to-left keeping the  *)
(*               deepest value; map iteration order = nondeterminism       *)
(*   DesignOK: for EVERY name ImplMatch(name) is non-empty iff Allowed is, *)
(*   and ImplMatch(name) \subseteq Allowed(name).                          *)
(* Deviation switches (non-vacuity): SuffixMode = "string" (domain rules   *)
(* match by string suffix), OrderName = "fdkr" / "dfrk" (precedence        *)
(* changed), KeepDeepest = FALSE (trie walk returns the first value).      *)
(***************************************************************************)
EXTENDS Integers, Sequences, FiniteSets, TLC, Json

CONSTANTS
    MaxName,     \* labels in a name (1..MaxName)
    MaxPat,      \* labels in a full/domain/none pattern
    MaxRePat,    \* labels in a regexp pattern (1..MaxRePat)
    KwLen,       \* characters in a keyword pattern (1..KwLen)
    MaxRules,
    Defs,        \* default types explored, subset of {"domain", "full", "keyword", "regexp"}
    Types,       \* rule types explored, subset of {"full", "domain", "keyword", "regexp", "none"}
    SuffixMode,  \* "label" (code) | "string" (deviation)
    OrderName,   \* "fdrk" (code: full, domain, regexp, keyword) | "fdkr" | "dfrk" (deviations)
    KeepDeepest, \* TRUE (code)
    EmitAll      \* TRUE: export behaviours

VARIABLES
    def,     \* default type of the set
    rules,   \* history: rules in load order
    ms,      \* ghost: ms[j] = the names rule j describes per the CONTRACT (looked up once in MatchTab)
    fullM, domM,      \* sub-matchers: maps key -> index of the rule whose value is stored
    reM, kwM          \* maps key -> [v: rule index, acc: the names the compiled expression / keyword accepts]

vars == <<def, rules, ms, fullM, domM, reM, kwM>>

Order ==
    CASE OrderName = "fdrk" -> <<"full", "domain", "regexp", "keyword">>
      [] OrderName = "fdkr" -> <<"full", "domain", "keyword", "regexp">>
      [] OrderName = "dfrk" -> <<"domain", "full", "regexp", "keyword">>

LabelIds == <<"a", "b", "c">>
Chars(x) == CASE x = "a" -> <<"E", "B">> [] x = "b" -> <<"B">> [] x = "c" -> <<"C">>

\* all label sequences of length k, as a sequence in lexicographic order (first label most significant)
RECURSIVE SeqsOfLen(_)
SeqsOfLen(k) ==
    IF k = 0 THEN << <<>> >>
    ELSE LET rest == SeqsOfLen(k - 1)
             With(x) == [i \in 1..Len(rest) |-> <<x>> \o rest[i]]
         IN With("a") \o With("b") \o With("c")
RECURSIVE UpTo(_, _)
UpTo(lo, hi) == IF lo > hi THEN <<>> ELSE SeqsOfLen(lo) \o UpTo(lo + 1, hi)
Range(s) == {s[i] : i \in 1..Len(s)}

NameList == UpTo(1, MaxName)
NameIdx == 1..Len(NameList)

RECURSIVE Str(_)
Str(ls) ==
    IF ls = <<>> THEN <<>>
    ELSE IF Len(ls) = 1 THEN Chars(ls[1])
    ELSE Chars(ls[1]) \o <<".">> \o Str(Tail(ls))
NameStr == [i \in NameIdx |-> Str(NameList[i])]

IsPrefix(p, s) == Len(p) <= Len(s) /\ SubSeq(s, 1, Len(p)) = p
IsSuffix(p, s) == Len(p) <= Len(s) /\ SubSeq(s, Len(s) - Len(p) + 1, Len(s)) = p
IsSubstr(p, s) == \E i \in 0..(Len(s) - Len(p)) : SubSeq(s, i + 1, i + Len(p)) = p
IsLabelSuffix(p, n) == Len(p) <= Len(n) /\ SubSeq(n, Len(n) - Len(p) + 1, Len(n)) = p

\* keyword patterns: the non-empty substrings (<= KwLen characters, not ending in ".") of dotted strings
KwPats ==
    LET src == {Str(n) : n \in Range(UpTo(1, 2))}
    IN {k \in UNION {{SubSeq(s, i, j) : i \in 1..Len(s), j \in 1..Len(s)} : s \in src} :
            Len(k) >= 1 /\ Len(k) <= KwLen /\ k[Len(k)] # "."}

Forms == {"pre", "suf", "bsuf", "eq", "sub"}
\* forms whose concrete text contains upper-case characters: a regular expression is NOT case-normalised
\* (only full/domain/keyword rules are), it merely sees the normalised name.
\*   ssuf  \S+\.p$   (lower-cased: \s+\.p$ matches no name)     spre  ^p\.\S+$
\*   upper ^P  with P = p written in upper case: matches no (lower-case, normalised) name
Forms2 == {"ssuf", "spre", "upper"}

RuleUniverse ==
    (IF "full" \in Types
     THEN {[t |-> "full", f |-> "-", ls |-> p, k |-> <<>>] : p \in Range(UpTo(1, MaxPat))} ELSE {})
    \cup (IF "domain" \in Types
     THEN {[t |-> "domain", f |-> "-", ls |-> p, k |-> <<>>] : p \in Range(UpTo(0, MaxPat))} ELSE {})
    \cup (IF "none" \in Types
     THEN {[t |-> "none", f |-> "-", ls |-> p, k |-> <<>>] : p \in Range(UpTo(1, MaxPat))} ELSE {})
    \cup (IF "keyword" \in Types
     THEN {[t |-> "keyword", f |-> "-", ls |-> <<>>, k |-> q] : q \in KwPats} ELSE {})
    \cup (IF "regexp" \in Types
     THEN {[t |-> "regexp", f |-> g, ls |-> p, k |-> <<>>] : g \in Forms, p \in Range(UpTo(1, MaxRePat))}
          \cup {[t |-> "regexp", f |-> g, ls |-> p, k |-> <<>>] : g \in Forms2, p \in Range(UpTo(1, 1))} ELSE {})

\* the pattern text of a rule (characters), before any type prefix
Pat(r) == IF r.t = "keyword" THEN r.k ELSE Str(r.ls)

ReMatch(form, p, s) ==
    CASE form = "pre"  -> IsPrefix(p, s)
      [] form = "suf"  -> IsSuffix(p, s)
      [] form = "bsuf" -> p = s \/ IsSuffix(<<".">> \o p, s)
      [] form = "eq"   -> p = s
      [] form = "sub"  -> IsSubstr(p, s)
      [] form = "ssuf" -> IsSuffix(<<".">> \o p, s)      \* a name never starts with ".": \S+ is non-empty
      [] form = "spre" -> IsPrefix(p \o <<".">>, s)      \* a normalised name never ends with "."
      [] form = "upper" -> FALSE

---------------------------------------------------------------------------
\* CONTRACT
EffD(d, r) == IF r.t = "none" THEN d ELSE r.t
Eff(r) == EffD(def, r)
\* a rule without prefix is read with the default type: its text is then a keyword / an expression
AsKw(r) == IF r.t = "keyword" THEN r.k ELSE Str(r.ls)
MatchesD(d, r, i) ==
    LET e == EffD(d, r) IN
    CASE e = "full"    -> r.ls = NameList[i]
      [] e = "domain"  -> IsLabelSuffix(r.ls, NameList[i])
      [] e = "keyword" -> IsSubstr(AsKw(r), NameStr[i])
      [] e = "regexp"  -> ReMatch(IF r.t = "none" THEN "sub" ELSE r.f, Str(r.ls), NameStr[i])
\* constant-level table (evaluated once by TLC): the names each rule describes
MatchTab == [d \in Defs |-> [r \in RuleUniverse |-> {i \in NameIdx : MatchesD(d, r, i)}]]
\* what regexp.MatchString / strings.Contains accept (pure functions of the key), tabulated
ReAcc(f, p) == {i \in NameIdx : ReMatch(f, p, NameStr[i])}
KwAcc(k) == {i \in NameIdx : IsSubstr(k, NameStr[i])}
SetMax(S) == CHOOSE x \in S : \A y \in S : y <= x
Allowed(i) ==
    LET M(ty) == {j \in 1..Len(rules) : Eff(rules[j]) = ty /\ i \in ms[j]}
        F == M("full")
        D == M("domain")
        longest == {j \in D : \A h \in D : Len(rules[h].ls) <= Len(rules[j].ls)}
    IN IF F # {} THEN {SetMax(F)}
       ELSE IF D # {} THEN {SetMax(longest)}
       ELSE IF M("regexp") # {} THEN M("regexp")
       ELSE M("keyword")

---------------------------------------------------------------------------
\* DESIGN: the implementation's data structures
Put(m, key, v) == [x \in (DOMAIN m) \cup {key} |-> IF x = key THEN v ELSE m[x]]

Nodes == UNION {{SubSeq(q, j, Len(q)) : j \in 1..(Len(q) + 1)} : q \in DOMAIN domM} \cup {<<>>}
RECURSIVE Walk(_, _, _, _)
Walk(nd, n, k, best) ==          \* nd = Nodes; k labels consumed from the right
    IF k > Len(n) THEN best
    ELSE LET path == SubSeq(n, Len(n) - k + 1, Len(n)) IN
         IF path \notin nd THEN best
         ELSE Walk(nd, n, k + 1, IF path \in DOMAIN domM /\ (KeepDeepest \/ best = {}) THEN {domM[path]} ELSE best)

ImplFull(i) == IF NameStr[i] \in DOMAIN fullM THEN {fullM[NameStr[i]]} ELSE {}
ImplDomain(nd, i) ==
    IF SuffixMode = "label"
    THEN Walk(nd, NameList[i], 1, IF <<>> \in DOMAIN domM THEN {domM[<<>>]} ELSE {})
    ELSE LET c == {q \in DOMAIN domM : IsSuffix(Str(q), NameStr[i])} IN
         {domM[g] : g \in {q \in c : \A h \in c : Len(Str(h)) <= Len(Str(q))}}
ImplRe(i) == {reM[g].v : g \in {key \in DOMAIN reM : i \in reM[key].acc}}
ImplKw(i) == {kwM[g].v : g \in {k \in DOMAIN kwM : i \in kwM[k].acc}}
Sub(nd, ty, i) ==
    CASE ty = "full" -> ImplFull(i) [] ty = "domain" -> ImplDomain(nd, i)
      [] ty = "regexp" -> ImplRe(i) [] ty = "keyword" -> ImplKw(i)
RECURSIVE First(_, _, _)
First(nd, j, i) ==
    IF j > Len(Order) THEN {}
    ELSE LET r == Sub(nd, Order[j], i) IN IF r # {} THEN r ELSE First(nd, j + 1, i)
ImplMatch(nd, i) == First(nd, 1, i)

---------------------------------------------------------------------------
Empty == [x \in {} |-> 0]

Init ==
    /\ def \in Defs
    /\ rules = <<>>
    /\ ms = <<>>
    /\ fullM = Empty /\ domM = Empty /\ reM = Empty /\ kwM = Empty

Add(r) ==
    /\ Len(rules) < MaxRules
    /\ rules' = Append(rules, r)
    /\ ms' = Append(ms, MatchTab[def][r])
    /\ LET idx == Len(rules) + 1
           e == Eff(r) IN
       /\ fullM' = IF e = "full" THEN Put(fullM, Str(r.ls), idx) ELSE fullM
       /\ domM' = IF e = "domain" THEN Put(domM, r.ls, idx) ELSE domM
       /\ reM' = IF e = "regexp"
                 THEN LET f == IF r.t = "none" THEN "sub" ELSE r.f IN
                      Put(reM, <<f, Str(r.ls)>>, [v |-> idx, acc |-> ReAcc(f, Str(r.ls))])
                 ELSE reM
       /\ kwM' = IF e = "keyword" THEN Put(kwM, AsKw(r), [v |-> idx, acc |-> KwAcc(AsKw(r))]) ELSE kwM
    /\ UNCHANGED def

Next == \E r \in RuleUniverse : Add(r)

Spec == Init /\ [][Next]_vars

---------------------------------------------------------------------------
\* C12 at design level
DesignOK ==
    LET nd == Nodes IN
    \A i \in NameIdx :
        LET im == ImplMatch(nd, i)
            al == Allowed(i)
        IN (im = {} <=> al = {}) /\ im \subseteq al

C12Inv == DesignOK

---------------------------------------------------------------------------
\* behaviour export (leg B): rule list + for every name the bit mask of the rule indices that may be returned
RECURSIVE Mask(_)
Mask(S) == IF S = {} THEN 0 ELSE LET x == CHOOSE y \in S : TRUE IN 2^(x - 1) + Mask(S \ {x})
Flat(n) == [j \in 1..Len(n) |-> n[j]]
EmitWith(al) == EmitAll =>
    PrintT(<<"BEH", ToJson([def |-> def,
                            rules |-> [j \in 1..Len(rules) |-> [t |-> rules[j].t, f |-> rules[j].f, p |-> Pat(rules[j])]],
                            x |-> [i \in NameIdx |-> Mask(al[i])],
                            names |-> IF rules = <<>> THEN NameList ELSE <<>>])>>)
\* design check and export in one pass over the names (Allowed evaluated once per name)
CheckEmit ==
    LET al == [i \in NameIdx |-> Allowed(i)]
        nd == Nodes IN
    /\ \A i \in NameIdx : LET im == ImplMatch(nd, i) IN (im = {} <=> al[i] = {}) /\ im \subseteq al[i]
    /\ EmitWith(al)
=============================================================================
