--------------------------- MODULE UpDial_Trace ---------------------------
(***************************************************************************)
(* Leg C: traces recorded from upstream.NewUpstream(addr, opt) against     *)
(* harness loopback servers (harness/drv_updial) checked against UpDial.   *)
(* One ndjson line per event, logged under one recorder mutex:             *)
(*   Start(kind, listen)                                                   *)
(*   Call(c, early)        before ExchangeContext is invoked; early: the   *)
(*                         scenario is younger than 2 s (now = 0)          *)
(*   CallLate(c)           a call made after Close returned                *)
(*   Accepted(s)           the server accepted its s-th TCP connection     *)
(*   HsComplete(s)         server side TLS handshake finished              *)
(*   SrvClose(s)           before the server closes connection s           *)
(*   Query(s, c)           the server read call c's query on connection s  *)
(*   Answer(s, c)          before the server writes the reply              *)
(*   UdpAnswer(c, tc, early)  before the udp server replies (tc: truncated)*)
(*   SrvSawClose(s)        the server's read on s ended (EOF / reset) and  *)
(*                         the server had not closed s itself              *)
(*   Cancel(c)  Close  Closed   before cancel / before and after Close()   *)
(*   Late                  dial timeout + 3 s has certainly passed for     *)
(*                         every dial started by an early event            *)
(*   CLate                 Close returned more than 3 s ago                *)
(*   StillOpen(s)  Pending(c)  Goroutines(n)   probes taken right after    *)
(*                         Late / CLate: connection s has not been closed  *)
(*                         by the client, call c has not returned, n       *)
(*                         goroutines of this upstream (pprof label) are   *)
(*                         inside pkg/upstream                             *)
(*   Return(c, k, via, fast)  k = ok (via udp / tcp: which reply), err,    *)
(*                         tc (the truncated udp reply), other             *)
(* HelloSeen, HsFailed, UdpQuery, BadQuery are informational.              *)
(* Silent: Tick01, DialAbort, ConnClose, GoExit, UGoExit, QueryTimeout,    *)
(* UdpTimeout, TcpRefuse, Retry, Fallback, Attach.                         *)
(***************************************************************************)
EXTENDS UpDial, IOUtils

VARIABLES l,
          smap     \* server connection serial -> dial

Trace == ndJsonDeserialize(IOEnv.TRACE_FILE)
MaxS == 8
tvars == <<vars, l, smap>>

Ev == Trace[l]
IsEvent(e) == l <= Len(Trace) /\ Ev.ev = e /\ l' = l + 1
Flag(f) == f \in DOMAIN Ev /\ Ev[f]
D(s) == IF s \in 1..MaxS THEN smap[s] ELSE 0

TraceInit ==
    /\ l = 1 /\ smap = [s \in 1..MaxS |-> 0]
    /\ Init

Reset ==
    /\ IsEvent("Start")
    /\ smap' = [s \in 1..MaxS |-> 0]
    /\ kind' = Ev.kind /\ listen' = Ev.listen
    /\ now' = 0 /\ cnow' = 0 /\ closed' = FALSE /\ closeRet' = FALSE
    /\ dst' = [d \in Dials |-> "none"]
    /\ epoch0' = [d \in Dials |-> FALSE]
    /\ sconn' = [d \in Dials |-> "none"]
    /\ dgo' = [d \in Dials |-> FALSE]
    /\ qto' = [d \in Dials |-> FALSE]
    /\ ugo' = FALSE
    /\ cpc' = [c \in Calls |-> "idle"]
    /\ cres' = [c \in Calls |-> "none"]
    /\ cctx' = [c \in Calls |-> FALSE]
    /\ con' = [c \in Calls |-> 0]
    /\ answered' = [c \in Calls |-> FALSE]
    /\ own' = [c \in Calls |-> FALSE]
    /\ att' = [c \in Calls |-> "none"]
    /\ ust' = [c \in Calls |-> "none"]
    /\ hist' = <<>>

Same == UNCHANGED <<vars, smap>>

Logged ==
    \/ /\ IsEvent("Call") /\ Ev.c \in InitCalls /\ (Flag("early") => now = 0) /\ Call(Ev.c) /\ UNCHANGED smap
    \/ /\ IsEvent("CallLate") /\ CallLate(Ev.c) /\ UNCHANGED smap
    \/ /\ IsEvent("Accepted") /\ Ev.s \in 1..MaxS /\ smap[Ev.s] = 0
       /\ \E d \in Dials : /\ \A s \in 1..MaxS : smap[s] # d
                           /\ TcpAccept(d)
                           /\ smap' = [smap EXCEPT ![Ev.s] = d]
    \/ /\ IsEvent("HsComplete") /\ D(Ev.s) # 0 /\ UNCHANGED smap
       /\ \/ HsComplete(D(Ev.s))
          \/ dst[D(Ev.s)] \in {"failed", "closed"} /\ UNCHANGED vars   \* the client gave the handshake up at the last moment
    \/ /\ IsEvent("SrvClose") /\ D(Ev.s) # 0 /\ UNCHANGED smap
       /\ \/ SrvClose(D(Ev.s))
          \/ ~(dst[D(Ev.s)] \in {"handshaking", "up"} /\ sconn[D(Ev.s)] = "open") /\ UNCHANGED vars
    \/ /\ IsEvent("Query") /\ D(Ev.s) # 0 /\ Ev.c \in Calls /\ (con[Ev.c] = D(Ev.s) \/ cpc[Ev.c] = "done") /\ Same
    \/ /\ IsEvent("Answer") /\ D(Ev.s) # 0 /\ Ev.c \in Calls /\ UNCHANGED smap
       /\ \/ con[Ev.c] = D(Ev.s) /\ Answer(Ev.c)
          \/ ~(Waiting(Ev.c) /\ con[Ev.c] = D(Ev.s) /\ dst[D(Ev.s)] = "up" /\ sconn[D(Ev.s)] = "open") /\ UNCHANGED vars   \* nobody listens any more
    \/ /\ IsEvent("UdpAnswer") /\ Ev.c \in Calls /\ (Flag("early") => now = 0) /\ UNCHANGED smap
       /\ \/ UdpAnswer(Ev.c, Ev.tc)
          \/ ~(Waiting(Ev.c) /\ ust[Ev.c] = "sent") /\ UNCHANGED vars
    \/ /\ IsEvent("SrvSawClose") /\ D(Ev.s) # 0 /\ sconn[D(Ev.s)] = "cclosed" /\ Same
    \/ /\ IsEvent("Cancel") /\ Ev.c \in Calls /\ UNCHANGED smap
       /\ IF Waiting(Ev.c) /\ ~cctx[Ev.c] THEN Cancel(Ev.c) ELSE UNCHANGED vars
    \/ /\ IsEvent("Close") /\ Close /\ UNCHANGED smap
    \/ /\ IsEvent("Closed") /\ CloseReturns /\ UNCHANGED smap
    \/ /\ IsEvent("Late") /\ UNCHANGED smap /\ (IF now = 2 THEN UNCHANGED vars ELSE Tick12)
    \/ /\ IsEvent("CLate") /\ CTick /\ UNCHANGED smap
    \/ /\ IsEvent("StillOpen") /\ D(Ev.s) # 0 /\ sconn[D(Ev.s)] = "open" /\ Same
    \/ /\ IsEvent("Pending") /\ Ev.c \in Calls /\ Waiting(Ev.c) /\ Same
    \/ /\ IsEvent("Goroutines") /\ (Ev.n > 0 => (ugo \/ \E d \in Dials : dgo[d])) /\ Same
    \/ /\ (IsEvent("HelloSeen") \/ IsEvent("HsFailed") \/ IsEvent("UdpQuery") \/ IsEvent("BadQuery")) /\ Same   \* informational
    \/ /\ IsEvent("Return") /\ Ev.c \in Calls /\ UNCHANGED smap
       /\ \/ /\ Ev.k = "ok" /\ RetOk(Ev.c)
             /\ Ev.via = (IF ust[Ev.c] = "ok" THEN "udp" ELSE "tcp")
          \/ /\ Ev.k = "err"
             /\ \/ RetErr(Ev.c)
                \/ /\ Ev.c = LateCall /\ cpc[Ev.c] = "done" /\ cres[Ev.c] = "err" /\ Flag("fast") /\ UNCHANGED vars

Silent ==
    /\ l <= Len(Trace)
    /\ UNCHANGED <<l, smap>>
    /\ \/ Tick01 \/ UGoExit
       \/ \E d \in Dials : DialAbort(d) \/ ConnClose(d) \/ GoExit(d) \/ QueryTimeout(d) \/ TcpRefuse(d)
       \/ \E c \in Calls : UdpTimeout(c) \/ Retry(c) \/ Fallback(c) \/ Attach(c)

TraceNext == (Reset \/ Logged \/ Silent) /\ UpInv'

TraceSpec == TraceInit /\ [][TraceNext]_tvars

HWM == TLCSet(1, IF TLCGet(1) < l THEN l ELSE TLCGet(1))
HWMInit == TLCSet(1, 0)
ASSUME HWMInit
Accepted == PrintT(<<"HWM", TLCGet(1), Len(Trace)>>)
=============================================================================
