---------------------------- MODULE UdpFallback ----------------------------
(***************************************************************************)
(* C17 - truncated UDP replies are retried over TCP.                       *)
(*                                                                         *)
(* pkg/upstream/upstream.go : udpWithFallback.ExchangeContext              *)
(* pkg/upstream/utils.go    : msgTruncated                                 *)
(*                                                                         *)
(* One call of ExchangeContext on a plain-UDP upstream:                    *)
(*   UdpSend      u.u.ExchangeContext writes the query to the UDP socket   *)
(*                (may repeat: the transport resends every second)         *)
(*   UdpReply     the server's reply arrives (flags chosen by the server)  *)
(*   UdpTimeout   no reply: the caller's context ends                      *)
(*   Decide       msgTruncated(reply): return it, or go to TCP             *)
(*   TcpDial      u.t.ExchangeContext dials the same address               *)
(*   TcpQuery     the server reads the framed query                        *)
(*   TcpAnswer / TcpFail   the server answers / closes mid-exchange        *)
(*   TcpGiveUp    the client reports the failure (after 1..MaxTcp dials)   *)
(* Environment: flags of the UDP reply [tc, oth] (oth = "all other header  *)
(* bits", abstracted to one boolean that must not matter), tcpMode.        *)
(* TestBit = "tc" is the design; "oth" (wrong bit tested), "always",       *)
(* "never" and GiveUpResult = "udp" are deviation switches (non-vacuity).  *)
(***************************************************************************)
EXTENDS Naturals, Sequences, TLC, Json

CONSTANTS
    TcpModes,     \* subset of {"answers", "refuses", "fails"}
    TestBit,      \* "tc" | "oth" | "always" | "never"
    MaxTcp,       \* bound on TCP dial attempts for one exchange (retries are the transport's freedom)
    MaxUdp,       \* bound on UDP (re)transmissions of the query
    GiveUpResult, \* "err" = the design: a failed TCP retry is reported as its error; "udp" = deviation:
                  \* the truncated UDP reply is handed to the caller as a success
    Export

VARIABLES
    tcpMode, tc, oth,     \* environment choices
    pc,                   \* "udp" "got" "tcp" "sent" "done"
    udpSent,              \* number of UDP datagrams sent
    tcpConns,             \* TCP connections accepted by the server during this exchange
    tcpDials,             \* dial attempts
    tcpSaw,               \* the server read the same question over TCP
    result                \* "none" | "udp" (the UDP reply) | "tcp" (the TCP reply) | "err"

vars == <<tcpMode, tc, oth, pc, udpSent, tcpConns, tcpDials, tcpSaw, result>>

Init ==
    /\ tcpMode \in TcpModes /\ tc \in BOOLEAN /\ oth \in BOOLEAN
    /\ pc = "udp" /\ udpSent = 0 /\ tcpConns = 0 /\ tcpDials = 0 /\ tcpSaw = FALSE /\ result = "none"

UdpSend ==
    /\ pc = "udp" /\ udpSent < MaxUdp
    /\ udpSent' = udpSent + 1
    /\ UNCHANGED <<tcpMode, tc, oth, pc, tcpConns, tcpDials, tcpSaw, result>>

UdpReply ==
    /\ pc = "udp" /\ udpSent >= 1
    /\ pc' = "got"
    /\ UNCHANGED <<tcpMode, tc, oth, udpSent, tcpConns, tcpDials, tcpSaw, result>>

UdpTimeout ==
    /\ pc = "udp"
    /\ pc' = "done" /\ result' = "err"
    /\ UNCHANGED <<tcpMode, tc, oth, udpSent, tcpConns, tcpDials, tcpSaw>>

Truncated == IF TestBit = "tc" THEN tc ELSE IF TestBit = "oth" THEN oth ELSE TestBit = "always"

Decide ==
    /\ pc = "got"
    /\ IF Truncated THEN pc' = "tcp" /\ result' = result
                    ELSE pc' = "done" /\ result' = "udp"
    /\ UNCHANGED <<tcpMode, tc, oth, udpSent, tcpConns, tcpDials, tcpSaw>>

TcpDial ==
    /\ pc = "tcp" /\ tcpDials < MaxTcp
    /\ tcpDials' = tcpDials + 1
    /\ IF tcpMode = "refuses" THEN pc' = pc /\ tcpConns' = tcpConns
                              ELSE pc' = "sent" /\ tcpConns' = tcpConns + 1
    /\ UNCHANGED <<tcpMode, tc, oth, udpSent, tcpSaw, result>>

TcpQuery ==
    /\ pc = "sent" /\ ~tcpSaw
    /\ tcpSaw' = TRUE
    /\ UNCHANGED <<tcpMode, tc, oth, pc, udpSent, tcpConns, tcpDials, result>>

TcpAnswer ==
    /\ pc = "sent" /\ tcpSaw /\ tcpMode = "answers"
    /\ pc' = "done" /\ result' = "tcp"
    /\ UNCHANGED <<tcpMode, tc, oth, udpSent, tcpConns, tcpDials, tcpSaw>>

\* the server hangs up after reading the query: the client may dial again or give up
TcpFail ==
    /\ pc = "sent" /\ tcpSaw /\ tcpMode = "fails"
    /\ pc' = "tcp" /\ tcpSaw' = FALSE
    /\ UNCHANGED <<tcpMode, tc, oth, udpSent, tcpConns, tcpDials, result>>

\* TC(r) => the result is the outcome of the TCP exchange: its reply or its error, never the
\* truncated UDP reply as a success
TcpGiveUp ==
    /\ pc = "tcp" /\ tcpDials >= 1 /\ tcpMode # "answers"
    /\ pc' = "done" /\ result' = GiveUpResult
    /\ UNCHANGED <<tcpMode, tc, oth, udpSent, tcpConns, tcpDials, tcpSaw>>

\* a reply may get lost (network, or dropped by the transport: C02); the query is then resent
UdpReplyLost == pc = "udp" /\ udpSent >= 1 /\ UNCHANGED vars

Next == UdpSend \/ UdpReply \/ UdpTimeout \/ Decide \/ TcpDial \/ TcpQuery \/ TcpAnswer \/ TcpFail \/ TcpGiveUp
Spec == Init /\ [][Next]_vars
FairSpec == Spec /\ WF_vars(Next)

TypeOK ==
    /\ tcpMode \in {"answers", "refuses", "fails"} /\ tc \in BOOLEAN /\ oth \in BOOLEAN
    /\ pc \in {"udp", "got", "tcp", "sent", "done"}
    /\ udpSent \in 0..MaxUdp /\ tcpConns \in 0..MaxTcp /\ tcpDials \in 0..MaxTcp
    /\ result \in {"none", "udp", "tcp", "err"}

(***************************************************************************)
(* C17                                                                     *)
(***************************************************************************)
\* replies without TC are returned as they are and no TCP connection is opened for them
NoTcNoTcp == ~tc => /\ tcpConns = 0 /\ tcpDials = 0 /\ ~tcpSaw
                    /\ result \in {"none", "udp", "err"}
                    /\ (result = "err" => pc = "done" /\ udpSent <= MaxUdp)
\* a truncated reply is never handed to the caller
TcNeverReturned == tc => result # "udp"
TcpReplyOnlyForSameQuery == result = "tcp" => tc /\ tcpSaw /\ tcpConns >= 1 /\ tcpMode = "answers"
\* with a TCP server that answers, a truncated reply cannot end in an error once TCP was tried
TcAnswered == (tc /\ tcpMode = "answers" /\ pc = "done" /\ tcpDials >= 1) => result = "tcp"
\* an error after a reply without TC can only be the UDP timeout
ErrOnlyWhenNoAnswer == (result = "err" /\ tcpDials = 0) => (udpSent <= MaxUdp /\ tcpConns = 0)

C17Inv == NoTcNoTcp /\ TcNeverReturned /\ TcpReplyOnlyForSameQuery /\ TcAnswered /\ ErrOnlyWhenNoAnswer

Terminates == <>(pc = "done")

\* generator: every (mode, tc, oth) with the outcome of the complete run in which the UDP reply arrives
Emit == (Export /\ pc = "done" /\ ~(result = "err" /\ tcpDials = 0)) =>
    PrintT(<<"BEH", ToJson([mode |-> tcpMode, tc |-> tc, oth |-> oth, result |-> result,
                            tcp |-> tcpDials >= 1])>>)
=============================================================================
