SPECIFICATION TraceSpec
CONSTANTS
  Orders = {"queue_first", "signal_first"}
  Standbys = {FALSE}
  TimerMays = {FALSE}
  LazyCaller = FALSE
  EagerCaller = FALSE
  WithHist = FALSE
  EnvCancel = TRUE
  EnvDeadline = TRUE
CONSTRAINT HWM
POSTCONDITION Accepted
CHECK_DEADLOCK FALSE
