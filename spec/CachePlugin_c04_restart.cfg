\* static copy for readers; checks/C04.py generates this text at run time through cachelib.cfg(): run on module CachePlugin_MC
\* leg A / generator C04: dump and reload between the operations (two instances)
SPECIFICATION Spec
CONSTANTS
  Names = {"n1"}
  Types = {"t1", "t2"}
  Classes = {"c1"}
  Flags = {0}
  Kinds = {"std"}
  KeyFields <- AllKey
  Resps <- RespsOne
  LazyTTLs = {0}
  Ticks = {1}
  MaxNow = 0
  MaxOps = 6
  NxMax = 30
  SfMax = 5
  EmptyMax = 300
  StaleTTL = 5
  TTLMode = "stored"
  Admit = "rule"
  Dedup = TRUE
  RefreshOwner = "asked"
  Alias = "none"
  DumpFields <- AllDump
  Insts = {1, 2}
  OpKinds = {"exec", "dump", "load"}
  MaxHandles = 0
  WithHist = FALSE
VIEW ViewNoHist
INVARIANTS TypeOK NoSharing BypassRule TTLRule StaleRule AdmissionRule NeverServedAfterExpiry AtMostOneRefresh Isolation HitId RestartTransparent
CHECK_DEADLOCK FALSE
