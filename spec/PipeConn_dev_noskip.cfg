\* PipeConn_dev_noskip.cfg6
SPECIFICATION Spec
CONSTANTS
  Callers = {0, 1}
  M = 2
  MaxCqs = {2}
  MaxCalls = 2
  StartQids = {3}
  Datagrams = {FALSE}
  UNBUFFERED_HANDOFF = FALSE
  RANDOM_SELECT = FALSE
  DOUBLE_COUNT = FALSE
  DEV = {"no_skip"}
  MaxStray = 0
  MaxDup = 0
  MaxCancel = 1
  MaxFault = 0
  StrictClosed = FALSE
  GenFocus = "none"
  WithHist = FALSE
INVARIANTS OwnReply
VIEW ViewNoHist
CHECK_DEADLOCK FALSE
