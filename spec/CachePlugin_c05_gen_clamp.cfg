\* static copy for readers; checks/C05.py generates this text at run time through cachelib.cfg(): run on module CachePlugin_MC
\* leg B generator: clamp boundary elapsed = ttl-1, ttl, ttl+1 (exhaustive)
SPECIFICATION Spec
CONSTANTS
  Names = {"n1"}
  Types = {"t1"}
  Classes = {"c1"}
  Flags = {0}
  Kinds = {"std"}
  KeyFields <- AllKey
  Resps <- RespsClamp
  LazyTTLs = {0}
  Ticks = {1, 2, 3, 7, 8, 9, 12}
  MaxNow = 30
  MaxOps = 3
  NxMax = 30
  SfMax = 5
  EmptyMax = 300
  StaleTTL = 5
  TTLMode = "stored"
  Admit = "rule"
  Dedup = TRUE
  RefreshOwner = "asked"
  Alias = "none"
  DumpFields <- AllDump
  Insts = {1}
  OpKinds = {"exec", "tick"}
  MaxHandles = 0
  WithHist = TRUE
INVARIANTS Emit
CHECK_DEADLOCK FALSE
