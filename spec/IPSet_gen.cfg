\* leg B generator: every multiset of <= 3 masked prefixes with the expected answer for every abstract address (W, HostBits, MaxLen, B4s rewritten by the check)
SPECIFICATION Spec
CONSTANTS
  W = 4
  L4 = 1
  B4s = {0, 1}
  Fams = {"v4", "v6"}
  HostBits = FALSE
  MaxLen = 3
  KeepRule = "shorter"
  DoMask = TRUE
  GenOnly = TRUE
  EmitAll = TRUE
INVARIANTS Emit
CHECK_DEADLOCK FALSE
