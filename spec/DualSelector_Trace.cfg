SPECIFICATION TraceSpec
CONSTANTS
  Kinds = {"pref", "nonpref", "other"}
  MaxCalls = 1000
  TimerMays = {FALSE}
  EnvCancel = TRUE
  WithHist = FALSE
  CACHE_ON_ANY = FALSE
CONSTRAINT HWM
POSTCONDITION Accepted
CHECK_DEADLOCK FALSE
