SPECIFICATION TraceSpec
CONSTANTS
  NCalls = 6
  MaxDials = 6
  QueueLimit = 2
  ConnCap = 1
  Policy = "any"
  MaxRetry = 2
  AttemptBound = 4
  Dev = {}
  NoWgWait = FALSE
  ExactScan = FALSE
  MaxFaults = 6
  Kinds = {"stale", "dead"}
  CancelCalls = {1, 2, 3, 4, 5, 6}
  EnvTClose = TRUE
  OrderedStart = FALSE
  Eager = FALSE
  WithHist = FALSE
CONSTRAINT HWM
POSTCONDITION Accepted
CHECK_DEADLOCK FALSE
