\* leg A: the design (TC bit decides) satisfies C17 for every reply class x TCP behaviour
SPECIFICATION FairSpec
CONSTANTS
  TcpModes = {"answers", "refuses", "fails"}
  TestBit = "tc"
  MaxTcp = 3
  MaxUdp = 2
  GiveUpResult = "err"
  Export = FALSE
INVARIANTS TypeOK C17Inv
PROPERTIES Terminates
CHECK_DEADLOCK FALSE
