\* leg A + leg B generator (thorough): every ordered list of <= 2 rules (all types, patterns <= 3 labels) x every name <= 4 labels; CheckEmit = DesignOK + export
SPECIFICATION Spec
CONSTANTS
  MaxName = 4
  MaxPat = 3
  MaxRePat = 2
  KwLen = 3
  MaxRules = 2
  Defs = {"domain", "full"}
  Types = {"full", "domain", "keyword", "regexp", "none"}
  SuffixMode = "label"
  OrderName = "fdrk"
  KeepDeepest = TRUE
  EmitAll = TRUE
INVARIANTS CheckEmit
CHECK_DEADLOCK FALSE
