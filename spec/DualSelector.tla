-------------------------- MODULE DualSelector --------------------------
(***************************************************************************)
(* plugin/executable/dual_selector/dual_selector.go : Selector.Exec        *)
(* (prefer_ipv4 / prefer_ipv6).  Extra coverage attached to C03 (the       *)
(* dual-stack selector is one of the built-in plugins every composition    *)
(* of which must keep ID/question and produce one reply).                  *)
(*                                                                         *)
(* A selector instance serves a sequence of calls for one name; the        *)
(* "preferred type exists" cache survives between calls.                   *)
(*   Call(kind)      kind = "pref" (query has the preferred type), "nonpref"*)
(*                   (A/AAAA but not preferred), "other" (any other type)  *)
(*   DirectFinish(o) pref/other: the rest of the chain returned            *)
(*   RefFinish(o)    nonpref: reference query (preferred type) goroutine   *)
(*   OrgFinish(o)    nonpref: original query goroutine                     *)
(*   Sel1 / Sel2     the two selects of the caller                         *)
(*   TimerFire       referenceWaitTimeout (500 ms) after the original      *)
(*                   query finished                                        *)
(***************************************************************************)
EXTENDS Naturals, Sequences, TLC, Json

CONSTANTS
    Kinds,        \* subset of {"pref", "nonpref", "other"}
    MaxCalls,     \* calls per selector instance
    TimerMays,    \* subset of BOOLEAN
    EnvCancel,    \* the caller's context may be cancelled
    WithHist,
    CACHE_ON_ANY  \* deviation switch (non-vacuity): cache is set by any reference answer

VARIABLES
    cache,                    \* preferred type known to exist for the name
    ncall, kind, timerMay,
    cpc, result,              \* caller
    rpc, rout, opc, oout,     \* reference / original goroutines (or the direct call: opc/oout)
    shouldBlock, shouldPass, doneChan,
    timerFired, ctxDone,
    nextCalls,                \* how many times the rest of the chain was invoked in this call
    cacheAtStart,
    hist

vars == <<cache, ncall, kind, timerMay, cpc, result, rpc, rout, opc, oout, shouldBlock, shouldPass,
          doneChan, timerFired, ctxDone, nextCalls, cacheAtStart, hist>>

RefOutcomes == {"has", "hasnot", "none", "err"}   \* answer with / without a record of the preferred type, no response, error
OrgOutcomes == {"ans", "none", "err"}

H(e) == hist' = IF WithHist THEN Append(hist, e) ELSE hist

Init ==
    /\ cache = FALSE /\ ncall = 0 /\ kind = "na" /\ timerMay \in TimerMays
    /\ cpc = "idle" /\ result = "na"
    /\ rpc = "na" /\ rout = "na" /\ opc = "na" /\ oout = "na"
    /\ shouldBlock = FALSE /\ shouldPass = FALSE /\ doneChan = FALSE
    /\ timerFired = FALSE /\ ctxDone = FALSE /\ nextCalls = 0 /\ cacheAtStart = FALSE
    /\ hist = <<>>

\* a call may start when the previous one has returned and its goroutines are gone
Quiet == cpc \in {"idle", "done"} /\ rpc \in {"na", "done"} /\ opc \in {"na", "done"}

Call(k) ==
    /\ Quiet /\ ncall < MaxCalls /\ k \in Kinds
    /\ ncall' = ncall + 1 /\ kind' = k /\ cacheAtStart' = cache
    /\ rout' = "na" /\ oout' = "na"
    /\ shouldBlock' = FALSE /\ shouldPass' = FALSE /\ doneChan' = FALSE
    /\ timerFired' = FALSE /\ ctxDone' = FALSE
    /\ IF k = "nonpref"
         THEN IF cache
                THEN cpc' = "done" /\ result' = "blocked" /\ rpc' = "na" /\ opc' = "na" /\ nextCalls' = 0
                ELSE cpc' = "sel1" /\ result' = "na" /\ rpc' = "exec" /\ opc' = "exec" /\ nextCalls' = 2
         ELSE cpc' = "direct" /\ result' = "na" /\ rpc' = "na" /\ opc' = "exec" /\ nextCalls' = 1
    /\ H([a |-> "Call", k |-> k])
    /\ UNCHANGED <<cache, timerMay>>

\* pref / other: the rest of the chain runs on the caller's own context, its outcome is the result
DirectFinish(o) ==
    /\ cpc = "direct" /\ opc = "exec" /\ o \in RefOutcomes
    /\ opc' = "done" /\ oout' = o /\ cpc' = "done" /\ result' = "direct"
    /\ cache' = IF kind = "pref" /\ o = "has" THEN TRUE ELSE cache
    /\ H([a |-> "DirectFinish", o |-> o])
    /\ UNCHANGED <<ncall, kind, timerMay, rpc, rout, shouldBlock, shouldPass, doneChan, timerFired, ctxDone,
                   nextCalls, cacheAtStart>>

RefFinish(o) ==
    /\ rpc = "exec" /\ o \in RefOutcomes
    /\ rpc' = "done" /\ rout' = o
    /\ IF o = "has" THEN shouldBlock' = TRUE /\ UNCHANGED shouldPass
                    ELSE shouldPass' = TRUE /\ UNCHANGED shouldBlock
    /\ cache' = IF o = "has" \/ (CACHE_ON_ANY /\ o = "hasnot") THEN TRUE ELSE cache
    /\ H([a |-> "RefFinish", o |-> o])
    /\ UNCHANGED <<ncall, kind, timerMay, cpc, result, opc, oout, doneChan, timerFired, ctxDone, nextCalls, cacheAtStart>>

OrgFinish(o) ==
    /\ kind = "nonpref" /\ opc = "exec" /\ o \in OrgOutcomes
    /\ opc' = "done" /\ oout' = o /\ doneChan' = TRUE
    /\ H([a |-> "OrgFinish", o |-> o])
    /\ UNCHANGED <<cache, ncall, kind, timerMay, cpc, result, rpc, rout, shouldBlock, shouldPass, timerFired, ctxDone,
                   nextCalls, cacheAtStart>>

\* first select: ctx.Done / shouldBlock / doneChan (Go picks any ready arm)
Sel1 ==
    /\ cpc = "sel1"
    /\ \/ ctxDone /\ cpc' = "done" /\ result' = "ctx"
       \/ shouldBlock /\ cpc' = "done" /\ result' = "blocked"
       \/ doneChan /\ cpc' = "sel2" /\ UNCHANGED result
    /\ UNCHANGED <<cache, ncall, kind, timerMay, rpc, rout, opc, oout, shouldBlock, shouldPass, doneChan, timerFired,
                   ctxDone, nextCalls, cacheAtStart, hist>>

\* second select: ctx.Done / shouldBlock / shouldPass / 500 ms timer
Sel2 ==
    /\ cpc = "sel2"
    /\ \/ ctxDone /\ result' = "ctx"
       \/ shouldBlock /\ result' = "blocked"
       \/ shouldPass /\ result' = "orig"
       \/ timerFired /\ result' = "orig"
    /\ cpc' = "done"
    /\ UNCHANGED <<cache, ncall, kind, timerMay, rpc, rout, opc, oout, shouldBlock, shouldPass, doneChan, timerFired,
                   ctxDone, nextCalls, cacheAtStart, hist>>

TimerFire ==
    /\ timerMay /\ cpc = "sel2" /\ ~timerFired /\ timerFired' = TRUE
    /\ H([a |-> "TimerFire"])
    /\ UNCHANGED <<cache, ncall, kind, timerMay, cpc, result, rpc, rout, opc, oout, shouldBlock, shouldPass, doneChan,
                   ctxDone, nextCalls, cacheAtStart>>

Cancel ==
    /\ EnvCancel /\ cpc \in {"direct", "sel1", "sel2", "done"} /\ ~ctxDone /\ ctxDone' = TRUE
    /\ H([a |-> "Cancel"])
    /\ UNCHANGED <<cache, ncall, kind, timerMay, cpc, result, rpc, rout, opc, oout, shouldBlock, shouldPass, doneChan,
                   timerFired, nextCalls, cacheAtStart>>

Next ==
    \/ \E k \in Kinds : Call(k)
    \/ \E o \in RefOutcomes : DirectFinish(o) \/ RefFinish(o)
    \/ \E o \in OrgOutcomes : OrgFinish(o)
    \/ Sel1 \/ Sel2 \/ TimerFire \/ Cancel

Spec == Init /\ [][Next]_vars
FairSpec == Spec /\ WF_vars(Sel1 \/ Sel2 \/ TimerFire \/ (\E o \in RefOutcomes : DirectFinish(o) \/ RefFinish(o))
                            \/ (\E o \in OrgOutcomes : OrgFinish(o)))

------------------------------------------------------------------------------
\* a non-preferred query is answered empty only if the preferred type is known to exist
BlockedOnlyIfPreferredExists == result = "blocked" => (cacheAtStart \/ rout = "has")
\* the original answer is passed only if the reference said "no record / failed" or was too slow
OrigOnlyWhen == result = "orig" => (opc = "done" /\ (shouldPass \/ timerFired))
\* the cache is set only by an answer that contains a record of the preferred type
CacheSound == cache => (cacheAtStart \/ rout = "has" \/ (kind = "pref" /\ oout = "has"))
\* a cached positive blocks at once, without running the rest of the chain
CachedBlocksAtOnce == (kind = "nonpref" /\ cacheAtStart /\ cpc = "done") => (result = "blocked" /\ nextCalls = 0)
ResultSound ==
    /\ result = "ctx" => ctxDone
    /\ result = "direct" => kind \in {"pref", "other"}
DSInv == BlockedOnlyIfPreferredExists /\ OrigOnlyWhen /\ CacheSound /\ CachedBlocksAtOnce /\ ResultSound

TypeOK ==
    /\ cpc \in {"idle", "direct", "sel1", "sel2", "done"}
    /\ result \in {"na", "blocked", "orig", "ctx", "direct"}

CallEnds == (cpc \in {"direct", "sel1", "sel2"}) ~> (cpc = "done")

------------------------------------------------------------------------------
AllDone == ncall = MaxCalls /\ Quiet /\ cpc = "done"
Emit == AllDone => PrintT(<<"BEH", ToJson([timerMay |-> timerMay, steps |-> hist])>>)
=============================================================================
