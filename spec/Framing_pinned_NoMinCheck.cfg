\* non-vacuity: deviation NoMinCheck must violate C16Inv
SPECIFICATION Spec
CONSTANTS
  B = 4
  MIN = 1
  Writers = {1, 2}
  Lens = {0, 1, 2, 3, 5, 16}
  MinAccepts = {TRUE, FALSE}
  MaxCut = 2
  SplitWrite = FALSE
  NoMaxCheck = FALSE
  NoMinCheck = TRUE
  ResumeFresh = FALSE
  NoReadFull = FALSE
  WithHist = FALSE
  Export = FALSE
INVARIANTS C16Inv
CHECK_DEADLOCK FALSE
