\* leg A non-vacuity: Dev is replaced by each deviation; the named invariant must then be violated
SPECIFICATION Spec
CONSTANTS
  Threads = {t1, t2}
  Keys = {1, 2}
  MinCap = 1
  Sizes = {0}
  OpTypes = {"get", "store", "flush", "len", "range"}
  Exps = {"long", "short"}
  MaxOps = 3
  MaxPerThread = 3
  Exact = FALSE
  Dev = "@DEV@"
  TraceMode = FALSE
  SkipBand = FALSE
  WithHist = FALSE
INVARIANTS @INV@
VIEW ViewNoHist
CHECK_DEADLOCK FALSE
