SPECIFICATION Spec
CONSTANTS
  Kinds = {"pref", "nonpref", "other"}
  MaxCalls = 3
  TimerMays = {TRUE, FALSE}
  EnvCancel = TRUE
  WithHist = FALSE
  CACHE_ON_ANY = TRUE
INVARIANTS TypeOK BlockedOnlyIfPreferredExists OrigOnlyWhen CacheSound CachedBlocksAtOnce ResultSound
CHECK_DEADLOCK FALSE
