\* leg B generator for C08: streams of up to 4 queries, up to 3 killed connections, no cancel / Close
SPECIFICATION Spec
CONSTANTS
  NCalls = 4
  MaxDials = 4
  Policy = "code"
  MaxRetry = 2
  AttemptBound = 4
  RandomSelect = FALSE
  LockInOnce = FALSE
  Dev = {}
  MaxFaults = 3
  Kinds = {"eof", "silent"}
  OrderedStart = TRUE
  CancelCalls = {}
  EnvTClose = FALSE
  Coarse = TRUE
  Eager = TRUE
  WithHist = TRUE
INVARIANTS Emit
CHECK_DEADLOCK FALSE
