------------------------- MODULE ServerConn_Trace -------------------------
(***************************************************************************)
(* Leg C for ServerConn.tla: traces recorded from the real server.ServeTCP *)
(* (harness listener + scripted connections with virtual read deadlines)   *)
(* and server.ServeUDP (loopback sockets), harness/drv_server.             *)
(*                                                                         *)
(* Logged events: Reset, Accept(c), Arm(c, cls), Send(c, q), SendPart(c,q),*)
(* SendRest(c, q), Garbage(c), HalfClose(c), TimerFire(c), Invoke(q, c, ok,*)
(* ctxdone), Release(q, k), Write(q, c, ok), WriteFail(q), Close(c),       *)
(* Stall(c), Unstall(c), PartialWrite(q, c, n),                            *)
(* ListenerClose, ServeReturn(err), CtxDone(q) (a running handler saw its  *)
(* context end), CtxAlive(q) (it waited the full bound for that and the    *)
(* context is still alive), Quiet (the harness waited its full bound for a reaction   *)
(* and none came: only legal when the spec's server has nothing to do),    *)
(* End(leak).  Any other event (BadWrite, TimerFireNoDeadline, ...) has no *)
(* action and is rejected.                                                 *)
(* udp: the server-side write (spec action Write) is SILENT - it can only   *)
(* happen while the socket is open -; the logged event Write is the        *)
(* client-side OBSERVATION of the datagram's arrival: it needs the silent  *)
(* write to have happened at any earlier point and may come arbitrarily    *)
(* late (after ListenerClose / ServeReturn / End).  `obs` counts           *)
(* observations: a second datagram for one query is rejected.  Quiet (a    *)
(* full 10 s bound passed) additionally requires that no written datagram  *)
(* is still unobserved; End makes no such demand.  tcp: Write / WriteFail / *)
(* Close / Arm are logged inside the server's own call on the scripted     *)
(* connection (no observation latency).                                    *)
(* Silent: ReadQuery, ReadBad, SkipBad, ArmClosed, ReaderCancel,           *)
(* ReaderDone, Abort without closing, udp: WriteFail, ServeReturn (the     *)
(* logged event confirms it afterwards).                                   *)
(***************************************************************************)
EXTENDS ServerConn, IOUtils

VARIABLES l,
          obs    \* udp: [Ids -> 0..1] reply datagrams observed by the client
Trace == ndJsonDeserialize(IOEnv.TRACE_FILE)
tvars == <<vars, l, obs>>
Ev == Trace[l]
IsEvent(e) == l <= Len(Trace) /\ Ev.ev = e /\ l' = l + 1

TraceInit == l = 1 /\ obs = [q \in Ids |-> 0] /\ Init

Reset ==
    /\ IsEvent("Reset") /\ obs' = [q \in Ids |-> 0]
    /\ lst' = "open"
    /\ cst' = [c \in Conns |-> IF TCP THEN "unborn" ELSE IF c = 1 THEN "open" ELSE "unborn"]
    /\ cl' = [c \in Conns |-> "open"]
    /\ pend' = [c \in Conns |-> <<>>]
    /\ part' = [c \in Conns |-> 0]
    /\ rpc' = [c \in Conns |-> IF TCP THEN "none" ELSE IF c = 1 THEN "read" ELSE "none"]
    /\ nread' = [c \in Conns |-> 0]
    /\ dl' = [c \in Conns |-> "none"]
    /\ fired' = [c \in Conns |-> FALSE]
    /\ cctx' = [c \in Conns |-> FALSE]
    /\ qc' = [q \in Ids |-> 0]
    /\ qst' = [q \in Ids |-> "unsent"]
    /\ wr' = [q \in Ids |-> 0]
    /\ late' = [c \in Conns |-> FALSE]
    /\ ng' = [c \in Conns |-> 0]
    /\ stalled' = [c \in Conns |-> FALSE] /\ trunc' = [c \in Conns |-> FALSE] /\ wat' = [c \in Conns |-> FALSE]
    /\ hist' = <<>>

InRange == ("q" \in DOMAIN Ev => Ev.q \in Ids) /\ ("c" \in DOMAIN Ev => Ev.c \in Conns)

NoPendingObs == TCP \/ \A q \in Ids : qst[q] = "written" => obs[q] = 1

Logged ==
  /\ l <= Len(Trace) /\ InRange
  /\ obs' = IF ~TCP /\ Ev.ev = "Write" THEN [obs EXCEPT ![Ev.q] = 1] ELSE obs
  /\
    \/ IsEvent("Accept") /\ Accept(Ev.c)
    \/ IsEvent("Arm") /\ Ev.cls \in {ArmClass(Ev.c), "both"} /\ Arm(Ev.c)
    \/ IsEvent("Send") /\ Send(Ev.c, Ev.q)
    \/ IsEvent("SendPart") /\ SendPart(Ev.c, Ev.q)
    \/ IsEvent("SendRest") /\ part[Ev.c] = Ev.q /\ SendRest(Ev.c)
    \/ IsEvent("Garbage") /\ Garbage(Ev.c)
    \/ IsEvent("HalfClose") /\ HalfClose(Ev.c)
    \/ IsEvent("TimerFire") /\ TimerFire(Ev.c)
    \/ IsEvent("Release") /\ Release(Ev.q, Ev.k)
    \/ IsEvent("ListenerClose") /\ ListenerClose
    \/ IsEvent("Invoke") /\ Ev.ok /\ qc[Ev.q] = Ev.c /\ (Ev.ctxdone => CtxDone(Ev.c)) /\ Invoke(Ev.q)
    \/ IsEvent("Write") /\ Ev.ok /\ qc[Ev.q] = Ev.c
          /\ IF TCP THEN Write(Ev.q)
                    ELSE qst[Ev.q] = "written" /\ obs[Ev.q] = 0 /\ UNCHANGED vars
    \/ IsEvent("WriteFail") /\ WriteFail(Ev.q)
    \/ IsEvent("PartialWrite") /\ qc[Ev.q] = Ev.c /\ PartialWrite(Ev.q)
    \/ IsEvent("Stall") /\ Stall(Ev.c)
    \/ IsEvent("Unstall") /\ Unstall(Ev.c)
    \/ IsEvent("Close") /\ \/ ReaderClose(Ev.c)
                           \/ TruncClose(Ev.c)
                           \/ \E q \in Ids : qc[q] = Ev.c /\ TCP /\ cst[Ev.c] = "open" /\ Abort(q)
    \/ IsEvent("ServeReturn") /\ Ev.err /\ lst = "returned" /\ UNCHANGED vars    \* observed after the (silent) step
    \/ IsEvent("CtxDone") /\ qst[Ev.q] = "running" /\ CtxDone(qc[Ev.q]) /\ UNCHANGED vars
    \/ IsEvent("CtxAlive") /\ qc[Ev.q] # 0 /\ ~CtxDone(qc[Ev.q]) /\ ServerQuiet /\ UNCHANGED vars
    \/ IsEvent("Quiet") /\ ServerQuiet /\ NoPendingObs /\ UNCHANGED vars
    \/ IsEvent("End") /\ (TCP => ServerQuiet) /\ ~Ev.leak /\ UNCHANGED vars    \* udp: observations may still be pending

Silent ==
    /\ l <= Len(Trace) /\ UNCHANGED <<l, obs>>
    /\ \/ \E c \in Conns : ReadQueryG(c, TRUE) \/ ReadBad(c) \/ SkipBad(c) \/ ArmClosed(c) \/ ReaderCancel(c) \/ ReaderDone(c)
       \/ \E q \in Ids : qst[q] = "nil" /\ ~(TCP /\ cst[qc[q]] = "open") /\ Abort(q)
       \/ \E q \in Ids : ~TCP /\ (WriteFail(q) \/ Write(q))
       \/ ServeReturn

TraceNext == (Reset \/ Logged \/ Silent) /\ SCInv'
TraceSpec == TraceInit /\ [][TraceNext]_tvars

HWM == TLCSet(1, IF TLCGet(1) < l THEN l ELSE TLCGet(1))
ASSUME TLCSet(1, 0)
Accepted == PrintT(<<"HWM", TLCGet(1), Len(Trace)>>)
=============================================================================
