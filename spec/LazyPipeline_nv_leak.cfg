\* non-vacuity
SPECIFICATION Spec
CONSTANTS
  NCalls = 2
  MaxDials = 2
  QueueLimit = 2
  ConnCap = 2
  Policy = "code"
  MaxRetry = 2
  AttemptBound = 4
  Dev = {"no_release"}
  NoWgWait = FALSE
  ExactScan = TRUE
  MaxFaults = 0
  Kinds = {"stale", "dead"}
  CancelCalls = {1}
  EnvTClose = FALSE
  OrderedStart = TRUE
  Eager = FALSE
  WithHist = FALSE
VIEW ViewNoHist
INVARIANTS NoLeak

CHECK_DEADLOCK FALSE
