\* leg B generator (exhaustive BFS): one caller, one call, every schedule of reader vs caller, with and without a fault directly after the reply
SPECIFICATION GenSpec
CONSTANTS
  Callers = {0}
  M = 4
  MaxCqs = {1}
  MaxCalls = 1
  StartQids = {0}
  Datagrams = {FALSE}
  UNBUFFERED_HANDOFF = FALSE
  RANDOM_SELECT = FALSE
  DOUBLE_COUNT = FALSE
  DEV = {}
  MaxStray = 0
  MaxDup = 0
  MaxCancel = 0
  MaxFault = 1
  StrictClosed = FALSE
  GenFocus = "late_fault"
  WithHist = TRUE
INVARIANTS Emit
CHECK_DEADLOCK FALSE
