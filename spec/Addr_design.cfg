\* leg A: the repaired design (brackets removed exactly, dial_addr without port keeps the URL's port)
\* meets the C18 contract for the whole product of the property's quantifier
SPECIFICATION Spec
CONSTANTS
  Schemes = {"udp", "tcp", "tcp+pipeline", "tls", "tls+pipeline", "https", "h3", "quic", "doq"}
  Ports = {1, 53, 443, 853, 65535, 65589, 70000}
  TrimCut = 1
  DialPortRule = "url"
  PortCheck = TRUE
  Export = FALSE
INVARIANTS TypeOK C18Inv PortDefined BracketInsensitive SniNeverDial DefaultOnlyWhenOmitted
CHECK_DEADLOCK FALSE
