\* static copy for readers; checks/C19.py generates this text at run time through cachelib.cfg(): run on module CachePlugin_MC
\* leg A C19 (quick: <= 5 ops; thorough: 6)
SPECIFICATION Spec
CONSTANTS
  Names = {"n1"}
  Types = {"t1", "t2"}
  Classes = {"c1"}
  Flags = {0}
  Kinds = {"std"}
  KeyFields <- AllKey
  Resps <- RespsC19
  LazyTTLs = {0, 50}
  Ticks = {6, 25}
  MaxNow = 60
  MaxOps = 5
  NxMax = 30
  SfMax = 5
  EmptyMax = 300
  StaleTTL = 5
  TTLMode = "stored"
  Admit = "rule"
  Dedup = TRUE
  RefreshOwner = "asked"
  Alias = "none"
  DumpFields <- AllDump
  Insts = {1, 2}
  OpKinds = {"exec", "tick", "dump", "load", "cut"}
  MaxHandles = 0
  WithHist = FALSE
VIEW ViewNoHist
INVARIANTS TypeOK NoSharing BypassRule TTLRule StaleRule AdmissionRule NeverServedAfterExpiry AtMostOneRefresh Isolation HitId RestartTransparent
CHECK_DEADLOCK FALSE
