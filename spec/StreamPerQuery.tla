------------------------- MODULE StreamPerQuery -------------------------
(***************************************************************************)
(* Stream-per-query transports (C01 DoH/DoQ part, termination part of C07) *)
(*   pkg/upstream/doh/upstream.go          ExchangeContext / exchange      *)
(*   pkg/upstream/transport/conn_quic.go   ReserveNewQuery /               *)
(*                                         quicReservedExchanger           *)
(*                                                                         *)
(* Caller c asks question c (questions are distinct) with caller ID cid[c] *)
(* (arbitrary, may collide with another caller's).  Per call:              *)
(*   Call(c,id)   the exchange is invoked with the caller's buffer         *)
(*   Build(c)     worker: private copy of the query with wire ID 0         *)
(*                (doh: wire[0..1]=0 + base64 into queryBuf, per-request   *)
(*                 URL copy; doq: copyMsgWithLenHdr + PutUint16(..,0))     *)
(*   Send(c)      the request enters the transport on its OWN stream       *)
(*                (doh: rt.RoundTrip(req); doq: stream.Write) -- first     *)
(*                point where the server side can see the request          *)
(*   Release(c)   environment: the transport reads the request object and  *)
(*                puts it on the wire -- the bytes the server receives     *)
(*   Respond(c,k) environment: the server answers on that stream: a reply  *)
(*                to the question it received ("ok"), garbage, a short     *)
(*                body, a bad status / truncated frame                     *)
(*   Abort(c,k)   environment: stream reset / transport error ("reset"),   *)
(*                the transport's own 6 s timeout fires ("timeout")        *)
(*   Return(c)    the call returns what arrived on its stream, caller's ID *)
(*                restored (doh: final select + PutUint16; doq: same)      *)
(*   Cancel(c), ReturnCtx(c)   the caller's context ends; the call returns *)
(* Replies of other streams cannot arrive on stream c by construction; the *)
(* only way to receive a foreign answer is to have SENT a foreign query    *)
(* (shared request object) -- RequestIsOwnQuery.                           *)
(* `obj` is the request object the worker fills and the transport reads:   *)
(* private (index c) in the design, one shared object (index 0) under the  *)
(* deviation SHARED_REQUEST.                                               *)
(***************************************************************************)
EXTENDS Naturals, Sequences, TLC, Json

CONSTANTS
    Callers,      \* set of naturals >= 1
    IdVals,       \* caller IDs explored by Next (0 = zero; others abstract: 0xFFFF, random, colliding)
    Kinds,        \* reply kinds the server may use: subset of {"ok","garbage","short","status"}
    EnvCancel,    \* caller contexts may be cancelled
    EnvAbort,     \* resets / own timeouts may happen
    Eager,        \* generator only: internal steps run to completion before the environment moves
    WithHist,     \* record hist (behaviour export)
    Deviation     \* "none" | "SHARED_REQUEST" | "NO_ID_RESTORE" | "NO_WIRE_ZERO" | "INPLACE_ZERO" | "BAD_AS_OK" | "NO_CTX"

VARIABLES
    cpc,      \* caller: "idle" | "wait" | "done"
    wpc,      \* worker of the call: "none" | "start" | "built" | "sent"
    st,       \* the call's stream: "none" | "entered" | "released" | "answered"
    cid,      \* caller's ID
    buf,      \* caller's buffer [q, id]
    obj,      \* request objects (index 0 = the shared one of the deviation)
    seenE,    \* request as visible to the server side when it entered the transport
    seenR,    \* request as read by the transport = what the server receives
    srv,      \* what arrived on the stream
    res,      \* result of the call
    ctxDone,
    hist

vars == <<cpc, wpc, st, cid, buf, obj, seenE, seenR, srv, res, ctxDone, hist>>

None == [k |-> "none"]
Req(q, id) == [k |-> "req", q |-> q, id |-> id]
Err == [k |-> "err", q |-> 0, s |-> 0, id |-> 0]
BadKinds == {"short", "status", "reset", "timeout"}
AbortKinds == {"reset", "timeout"}

H(e) == hist' = IF WithHist THEN Append(hist, e) ELSE hist

P(c) == IF Deviation = "SHARED_REQUEST" THEN 0 ELSE c

Init ==
    /\ cpc = [c \in Callers |-> "idle"]
    /\ wpc = [c \in Callers |-> "none"]
    /\ st = [c \in Callers |-> "none"]
    /\ cid = [c \in Callers |-> 0]
    /\ buf = [c \in Callers |-> [q |-> c, id |-> 0]]
    /\ obj = [i \in Callers \cup {0} |-> None]
    /\ seenE = [c \in Callers |-> None]
    /\ seenR = [c \in Callers |-> None]
    /\ srv = [c \in Callers |-> None]
    /\ res = [c \in Callers |-> None]
    /\ ctxDone = [c \in Callers |-> FALSE]
    /\ hist = <<>>

AllDone == \A c \in Callers : cpc[c] = "done"
\* generator filter: something internal can still run
Busy == \E c \in Callers : \/ wpc[c] \in {"start", "built"}
                           \/ cpc[c] = "wait" /\ (st[c] = "answered" \/ ctxDone[c])
EnvMay == ~Eager \/ (~Busy /\ ~AllDone)

------------------------------------------------------------------------------
Call(c, id) ==
    /\ EnvMay
    /\ cpc[c] = "idle"
    /\ cpc' = [cpc EXCEPT ![c] = "wait"]
    /\ wpc' = [wpc EXCEPT ![c] = "start"]
    /\ cid' = [cid EXCEPT ![c] = id]
    /\ buf' = [buf EXCEPT ![c] = [q |-> c, id |-> id]]
    /\ H([a |-> "Call", c |-> c, id |-> id])
    /\ UNCHANGED <<st, obj, seenE, seenR, srv, res, ctxDone>>

Build(c) ==
    /\ wpc[c] = "start"
    /\ wpc' = [wpc EXCEPT ![c] = "built"]
    /\ obj' = [obj EXCEPT ![P(c)] = Req(buf[c].q, IF Deviation = "NO_WIRE_ZERO" THEN buf[c].id ELSE 0)]
    /\ buf' = IF Deviation = "INPLACE_ZERO" THEN [buf EXCEPT ![c].id = 0] ELSE buf
    /\ H([a |-> "Build", c |-> c])
    /\ UNCHANGED <<cpc, st, cid, seenE, seenR, srv, res, ctxDone>>

Send(c) ==
    /\ wpc[c] = "built"
    /\ wpc' = [wpc EXCEPT ![c] = "sent"]
    /\ st' = [st EXCEPT ![c] = "entered"]
    /\ seenE' = [seenE EXCEPT ![c] = obj[P(c)]]
    /\ H([a |-> "Send", c |-> c])
    /\ UNCHANGED <<cpc, cid, buf, obj, seenR, srv, res, ctxDone>>

Release(c) ==
    /\ EnvMay
    /\ st[c] = "entered"
    /\ st' = [st EXCEPT ![c] = "released"]
    /\ seenR' = [seenR EXCEPT ![c] = obj[P(c)]]
    /\ H([a |-> "Release", c |-> c])
    /\ UNCHANGED <<cpc, wpc, cid, buf, obj, seenE, srv, res, ctxDone>>

\* a reply of kind "ok" (and the body of a bad-status reply) answers the question the server received
Respond(c, k) ==
    /\ EnvMay
    /\ st[c] = "released"
    /\ st' = [st EXCEPT ![c] = "answered"]
    /\ srv' = [srv EXCEPT ![c] = [k |-> k, q |-> IF k \in {"ok", "status"} THEN seenR[c].q ELSE 0]]
    /\ H([a |-> "Respond", c |-> c, k |-> k])
    /\ UNCHANGED <<cpc, wpc, cid, buf, obj, seenE, seenR, res, ctxDone>>

Abort(c, k) ==
    /\ EnvMay /\ EnvAbort
    /\ k \in AbortKinds
    /\ st[c] \in {"entered", "released"}
    /\ st' = [st EXCEPT ![c] = "answered"]
    /\ srv' = [srv EXCEPT ![c] = [k |-> k, q |-> 0]]
    /\ H([a |-> "Abort", c |-> c, k |-> k])
    /\ UNCHANGED <<cpc, wpc, cid, buf, obj, seenE, seenR, res, ctxDone>>

Cancel(c) ==
    /\ EnvMay /\ EnvCancel
    /\ ~ctxDone[c]
    /\ (Eager => cpc[c] = "wait")
    /\ ctxDone' = [ctxDone EXCEPT ![c] = TRUE]
    /\ H([a |-> "Cancel", c |-> c])
    /\ UNCHANGED <<cpc, wpc, st, cid, buf, obj, seenE, seenR, srv, res>>

\* ID of the returned message: the caller's (read from the caller's buffer), or -- deviation -- whatever the
\* server echoed (the wire ID it received)
RetId(c) == IF Deviation = "NO_ID_RESTORE" THEN seenR[c].id ELSE buf[c].id

Results(c) ==
    LET k == srv[c].k IN
    IF k = "ok" \/ (k = "status" /\ Deviation = "BAD_AS_OK")
      THEN {[k |-> "ok", q |-> srv[c].q, s |-> c, id |-> RetId(c)]}
    ELSE IF k = "garbage"
      \* bytes that are no DNS message: handing them to the caller (ID overwritten) or failing are both acceptable
      THEN {[k |-> "garbage", q |-> 0, s |-> c, id |-> RetId(c)], Err}
    ELSE {Err}

Return(c) ==
    /\ cpc[c] = "wait" /\ st[c] = "answered"
    /\ \E r \in Results(c) : res' = [res EXCEPT ![c] = r]
    /\ cpc' = [cpc EXCEPT ![c] = "done"]
    /\ H([a |-> "Return", c |-> c])
    /\ UNCHANGED <<wpc, st, cid, buf, obj, seenE, seenR, srv, ctxDone>>

ReturnCtx(c) ==
    /\ Deviation # "NO_CTX"
    /\ cpc[c] = "wait" /\ ctxDone[c]
    /\ res' = [res EXCEPT ![c] = Err]
    /\ cpc' = [cpc EXCEPT ![c] = "done"]
    /\ H([a |-> "ReturnCtx", c |-> c])
    /\ UNCHANGED <<wpc, st, cid, buf, obj, seenE, seenR, srv, ctxDone>>

Next ==
    \E c \in Callers :
        \/ \E id \in IdVals : Call(c, id)
        \/ Build(c) \/ Send(c) \/ Release(c)
        \/ \E k \in Kinds : Respond(c, k)
        \/ \E k \in AbortKinds : Abort(c, k)
        \/ Cancel(c) \/ Return(c) \/ ReturnCtx(c)

Spec == Init /\ [][Next]_vars

\* workers run, the call's final wait runs, and (if EnvAbort) a silent stream is ended by the transport's own timeout
FairSpec ==
    /\ Spec
    /\ \A c \in Callers :
        /\ WF_vars(Build(c)) /\ WF_vars(Send(c))
        /\ WF_vars(Return(c)) /\ WF_vars(ReturnCtx(c))
        /\ WF_vars(Abort(c, "timeout"))

------------------------------------------------------------------------------
\* C01 (stream-per-query part)

\* a successful call returns the reply the server produced on ITS stream for ITS question, with ITS ID
OwnReply ==
    \A c \in Callers :
        (cpc[c] = "done" /\ res[c].k \in {"ok", "garbage"}) =>
            /\ res[c].s = c
            /\ res[c].id = cid[c]
            /\ (res[c].k = "ok" => res[c].q = c)
            /\ st[c] = "answered" /\ srv[c].k = res[c].k      \* success only with what really arrived on the stream

WireIdZero ==
    \A c \in Callers :
        /\ seenE[c] # None => seenE[c].id = 0
        /\ seenR[c] # None => seenR[c].id = 0

\* what the server side sees / receives on call c's stream is call c's question
RequestIsOwnQuery ==
    \A c \in Callers :
        /\ seenE[c] # None => seenE[c].q = c
        /\ seenR[c] # None => seenR[c].q = c

CallerBufferUntouched ==
    \A c \in Callers : cpc[c] # "idle" => buf[c] = [q |-> c, id |-> cid[c]]

\* bad status, short body, reset, timeout => error (C07: "with an error when the connection fails in any way")
ErrOnBadReply ==
    \A c \in Callers :
        (cpc[c] = "done" /\ st[c] = "answered" /\ srv[c].k \in BadKinds) => res[c].k = "err"

StreamInv == OwnReply /\ WireIdZero /\ RequestIsOwnQuery /\ CallerBufferUntouched /\ ErrOnBadReply

TypeOK ==
    /\ \A c \in Callers : cpc[c] \in {"idle", "wait", "done"}
    /\ \A c \in Callers : wpc[c] \in {"none", "start", "built", "sent"}
    /\ \A c \in Callers : st[c] \in {"none", "entered", "released", "answered"}
    /\ \A c \in Callers : res[c].k \in {"none", "ok", "garbage", "err"}

\* C07 (termination part): every started call ends; it ends when its context ends, whatever the server does
Terminates == \A c \in Callers : (cpc[c] = "wait") ~> (cpc[c] = "done")
CtxEnds == \A c \in Callers : (cpc[c] = "wait" /\ ctxDone[c]) ~> (cpc[c] = "done")

------------------------------------------------------------------------------
\* behaviour export (leg B)
Emit == AllDone =>
    PrintT(<<"BEH", ToJson([n |-> Len(SelectSeq(hist, LAMBDA e : e.a = "Call")), steps |-> hist])>>)

ViewNoHist == <<cpc, wpc, st, cid, buf, obj, seenE, seenR, srv, res, ctxDone>>
=============================================================================
