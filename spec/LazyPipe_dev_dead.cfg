\* non-vacuity (C08): a dead connection that still hands out reservations eats the retries: a query on a reused connection fails after a single death
SPECIFICATION Spec
CONSTANTS
  Callers = {0, 1, 2}
  Slots = {1, 2, 3}
  QLimits = {1, 2}
  CLimits = {1, 2}
  MaxCalls = 1
  MaxDialFail = 1
  DEAD_ADMITS = TRUE
  DONE_EARLY = FALSE
  DOUBLE_COUNT = FALSE
INVARIANTS SingleFaultSurvives
CHECK_DEADLOCK FALSE
