\* leg A + leg B generator (quick): every ordered list of <= 2 rules (patterns <= 2 labels) x every name <= 3 labels
SPECIFICATION Spec
CONSTANTS
  MaxName = 3
  MaxPat = 2
  MaxRePat = 2
  KwLen = 3
  MaxRules = 2
  Defs = {"domain", "full"}
  Types = {"full", "domain", "keyword", "regexp", "none"}
  SuffixMode = "label"
  OrderName = "fdrk"
  KeepDeepest = TRUE
  EmitAll = TRUE
INVARIANTS CheckEmit
CHECK_DEADLOCK FALSE
