\* leg A (thorough): every operation type, two keys, capacity 1, expiry phases, 2 threads, <= 3 calls; run with -coverage
SPECIFICATION Spec
CONSTANTS
  Threads = {t1, t2}
  Keys = {1, 2}
  MinCap = 1
  Sizes = {0}
  OpTypes = {"get", "store", "del", "len", "flush", "range"}
  Exps = {"long", "short", "past"}
  MaxOps = 3
  MaxPerThread = 2
  Exact = FALSE
  Dev = "none"
  TraceMode = FALSE
  SkipBand = FALSE
  WithHist = FALSE
INVARIANTS TypeOK Bounded NoForeignValue NoExpiredValue NoStaleAfterOverwriteOrFlush RangeSound LenBounded
VIEW ViewNoHist
SYMMETRY ThreadSym
CHECK_DEADLOCK FALSE
