--------------------------- MODULE Handler_Trace ---------------------------
(***************************************************************************)
(* Leg C for C03 / C15: traces recorded from the real EntryHandler +       *)
(* real plugin chains (harness/drv_handler) checked against Handler.tla.   *)
(*                                                                         *)
(* One trace = one query context travelling through one sequence.          *)
(* Logged events (one ndjson line each):                                   *)
(*   Query(mal, opt, tr, chain)   a client query handed to Handle / sent   *)
(*                                to a server (resets the state)           *)
(*   Branch(chain, start, copt, s)  a COPY of a context (dual_selector,    *)
(*                                fallback) entering a sequence at `start` *)
(*                                with snapshot s (resets the state)       *)
(*   Down(pos, s)   observer `pos` (in front of plugin chain[pos]) entered *)
(*   Up(pos, s, err) the rest of the chain returned to observer `pos`      *)
(*   Seen(nopt, fresh, opts)      an upstream received the query           *)
(*   Reply(...) / NoReply         what the client got                      *)
(*   CacheDump(nopt)              max #OPT in any message stored by cache  *)
(* A snapshot s = [qid, qq, qnopt, qfresh, qopts, r, uopt, ropt, pay]; ids *)
(* and questions are tokens relative to the client's query ("own",         *)
(* "redir" = the redirect target, "other"), options are tokens by origin.  *)
(* At Down the query is read through the context; at Up the query object   *)
(* that was current at the matching Down is read again (this is the object *)
(* Handle builds SERVFAIL / REFUSED from).                                 *)
(* Silent: Start Drop PDown EndChain PUp (the plugin steps - TLC infers    *)
(* which contract-allowed step explains the next snapshot).  The payload   *)
(* P (rcode, #records, TC) is not constrained by any plugin contract: it   *)
(* is copied from every snapshot.  C03Inv /\ C15Inv are conjoined to every *)
(* step, so a trace is accepted iff SOME behaviour of Handler.tla explains *)
(* it and satisfies C03 and C15 throughout.                                *)
(***************************************************************************)
EXTENDS Handler, IOUtils

CONSTANT Prop     \* "C03": ids / questions / reply header / size are compared, EDNS fields are not;
                  \* "C15": the OPT records and options are compared, ids / questions are not

VARIABLE l

Trace == ndJsonDeserialize(IOEnv.TRACE_FILE)

tvars == <<vars, l>>

Ev == Trace[l]
IsEvent(e) == l <= Len(Trace) /\ Ev.ev = e /\ l' = l + 1
ToSet(s) == { s[i] : i \in DOMAIN s }

OptOf(o) == IF o.k = "none" THEN None
            ELSE [k |-> "opt", size |-> o.size, do |-> o.do, ver |-> o.ver, opts |-> ToSet(o.opts)]
UOptOf(o) == IF o.k = "none" THEN None ELSE [k |-> "opt", opts |-> ToSet(o.opts)]
ROptOf(o) == IF o.k = "none" THEN None ELSE [k |-> "opt", do |-> o.do, opts |-> ToSet(o.opts)]
PayOf(s) == IF s.r.k = "msg" THEN [rcode |-> s.r.rcode, size |-> 0, nrec |-> s.r.nrec, tc |-> s.r.tc] ELSE NoPay

TraceInit ==
    /\ l = 1
    /\ cq = [mal |-> "qr", opt |-> None] /\ tr = "tcp" /\ chain = <<>>
    /\ pc = "done" /\ dir = "down" /\ at = 1 /\ stack = <<>>
    /\ Q = [id |-> "own", qq |-> "own", nopt |-> 1, fresh |-> TRUE, opts |-> {}]
    /\ R = None /\ P = NoPay /\ cOpt = None /\ uOpt = None /\ rOpt = None /\ err = FALSE
    /\ cache = None /\ seen = {} /\ fwdQ = {} /\ fwdR = {}
    /\ reply = None /\ hist = <<>>

\* a new client query: NewContext from the logged query
ResetQuery ==
    /\ IsEvent("Query")
    /\ cq' = [mal |-> Ev.mal, opt |-> OptOf(Ev.opt)]
    /\ tr' = Ev.tr /\ chain' = Ev.chain
    /\ pc' = "start" /\ dir' = "down" /\ at' = 1 /\ stack' = <<>>
    /\ Q' = [id |-> "own", qq |-> "own", nopt |-> 1, fresh |-> TRUE, opts |-> {}]
    /\ R' = None /\ P' = NoPay /\ cOpt' = OptOf(Ev.opt) /\ uOpt' = None
    /\ rOpt' = IF Ev.opt.k = "opt" THEN [k |-> "opt", do |-> Ev.opt.do, opts |-> {}] ELSE None
    /\ err' = FALSE
    /\ cache' \in { InitCache(c) : c \in Caches }
    /\ seen' = {} /\ fwdQ' = {} /\ fwdR' = {}
    /\ reply' = [k |-> "pending"] /\ hist' = <<>>

RMsgOf(r) == IF r.k = "none" THEN None
             ELSE [k |-> "msg", id |-> r.id, qq |-> r.qq, nopt |-> r.nopt, src |-> "up"]

\* a copied context entering a sequence: state taken from its first snapshot
ResetBranch ==
    /\ IsEvent("Branch")
    /\ cq' = [mal |-> "ok", opt |-> OptOf(Ev.copt)]
    /\ tr' = "tcp" /\ chain' = Ev.chain
    /\ pc' = "run" /\ dir' = "down" /\ at' = Ev.start /\ stack' = <<>>
    /\ Q' = [id |-> Ev.s.qid, qq |-> Ev.s.qq, nopt |-> Ev.s.qnopt, fresh |-> Ev.s.qfresh, opts |-> ToSet(Ev.s.qopts)]
    /\ R' = RMsgOf(Ev.s.r) /\ P' = PayOf(Ev.s)
    /\ cOpt' = OptOf(Ev.copt) /\ uOpt' = UOptOf(Ev.s.uopt) /\ rOpt' = ROptOf(Ev.s.ropt)
    /\ err' = FALSE
    /\ cache' \in { InitCache(c) : c \in Caches }
    /\ seen' = {}
    /\ fwdQ' = ToSet(Ev.s.qopts) \cap ClientTokens      \* forwarded by plugins in front of the copy point
    /\ fwdR' = (IF Ev.s.ropt.k = "opt" THEN ToSet(Ev.s.ropt.opts) ELSE {}) \cap UpTokens
    /\ reply' = [k |-> "branch"] /\ hist' = <<>>     \* no reply is owed by a copy; it may inherit a response

SnapMatches(s) ==
    /\ R.k = s.r.k
    /\ Prop = "C03" =>
          /\ Q.id = s.qid /\ Q.qq = s.qq
          /\ s.r.k = "msg" => (R.id = s.r.id /\ R.qq = s.r.qq)
    /\ Prop = "C15" =>
          /\ Q.nopt = s.qnopt /\ Q.fresh = s.qfresh /\ Q.opts = ToSet(s.qopts)
          /\ s.r.k = "msg" => R.nopt = s.r.nopt
          /\ uOpt = UOptOf(s.uopt)
          /\ rOpt = ROptOf(s.ropt)

Same == UNCHANGED <<cq, tr, chain, pc, dir, at, stack, Q, R, cOpt, uOpt, rOpt, err, cache, seen, fwdQ, fwdR, reply, hist>>

\* the logged reply; the fields the other property owns are taken from the model itself
ReplyOf(e) ==
    IF Prop = "C03"
    THEN [k |-> "reply", id |-> e.id, qq |-> e.qq, qr |-> e.qr, ra |-> e.ra, rcode |-> e.rcode,
          nopt |-> Base.nopt + (IF rOpt.k = "opt" THEN 1 ELSE 0), opt |-> OutOpt,
          nrec |-> e.nrec, tc |-> e.tc, size |-> e.size]
    ELSE [k |-> "reply", id |-> Base.id, qq |-> Base.qq, qr |-> TRUE, ra |-> TRUE, rcode |-> Base.rcode,
          nopt |-> e.nopt, opt |-> ROptOf(e.opt),
          nrec |-> Base.nrec, tc |-> Base.tc, size |-> 0]

Logged ==
    \/ /\ IsEvent("Down") /\ pc = "run" /\ dir = "down" /\ at = Ev.pos
       /\ SnapMatches(Ev.s) /\ P' = PayOf(Ev.s) /\ Same
    \/ /\ IsEvent("Up") /\ pc = "run" /\ dir = "up" /\ at = Ev.pos - 1
       /\ err = Ev.err
       /\ SnapMatches(Ev.s) /\ P' = PayOf(Ev.s) /\ Same
    \/ /\ IsEvent("Seen") /\ pc = "run"
       /\ Prop = "C15" => [nopt |-> Ev.nopt, fresh |-> Ev.fresh, opts |-> ToSet(Ev.opts)] \in seen
       /\ UNCHANGED vars
    \* the harness upstream reports the OPT it put into the answer it has just set: the upstream step TLC chose
    \* silently must have been the one with exactly that OPT (otherwise o is inferred from the next snapshot only)
    \/ /\ IsEvent("UpAns") /\ pc = "run"
       /\ Prop = "C15" => uOpt = UpOpt(ToSet(Ev.o))
       /\ UNCHANGED vars
    \/ /\ IsEvent("Reply") /\ pc = "run" /\ dir = "up" /\ at = 0
       /\ HandleRel(ReplyOf(Ev)) /\ reply' = ReplyOf(Ev) /\ pc' = "done"
       /\ UNCHANGED <<cq, tr, chain, dir, at, stack, Q, R, P, cOpt, uOpt, rOpt, err, cache, seen, fwdQ, fwdR, hist>>
    \/ /\ IsEvent("NoReply") /\ pc = "done" /\ reply = None
       /\ UNCHANGED vars
    \/ /\ IsEvent("NoReply") /\ Prop = "C15" /\ pc = "run" /\ dir = "up" /\ at = 0   \* a missing reply is C03's
       /\ pc' = "done" /\ reply' = None
       /\ UNCHANGED <<cq, tr, chain, dir, at, stack, Q, R, P, cOpt, uOpt, rOpt, err, cache, seen, fwdQ, fwdR, hist>>
    \/ /\ IsEvent("CacheDump") /\ pc = "done"
       /\ cache' = [k |-> "ent", key |-> "own", id |-> "other", qq |-> "own",
                    nopt |-> IF Prop = "C15" THEN Ev.nopt ELSE 0]
       /\ UNCHANGED <<cq, tr, chain, pc, dir, at, stack, Q, R, P, cOpt, uOpt, rOpt, err, seen, fwdQ, fwdR, reply, hist>>

Silent ==
    /\ l <= Len(Trace)
    /\ UNCHANGED l
    /\ \/ Start \/ Drop \/ PDown \/ EndChain \/ PUp

TraceNext == (ResetQuery \/ ResetBranch \/ Logged \/ Silent)
             /\ (Prop = "C03" => C03Inv') /\ (Prop = "C15" => C15Inv')

TraceSpec == TraceInit /\ [][TraceNext]_tvars

\* high-water mark of the trace position (needs -workers 1)
HWM == TLCSet(1, IF TLCGet(1) < l THEN l ELSE TLCGet(1))
HWMInit == TLCSet(1, 0)
ASSUME HWMInit
Accepted == PrintT(<<"HWM", TLCGet(1), Len(Trace)>>)
=============================================================================
