-------------------------- MODULE Forward_Trace --------------------------
(***************************************************************************)
(* Leg C: runs of the real forward plugin against in-memory harness        *)
(* upstreams, checked against Forward.tla.                                 *)
(*   Start(n, c, pt)        a new call; U has n entries, configured        *)
(*                          concurrency c; pt: the build has the schedule  *)
(*                          point forward.collected                        *)
(*   Asked(cid, pos, same, ddl)  the upstream at position pos of U got an  *)
(*                          ExchangeContext call (cid = arrival number);   *)
(*                          same: the bytes are the packed query; ddl: its *)
(*                          context ends within the 5 s upstream timeout   *)
(*   Release(cid, o, intact)  the harness lets that exchange return o      *)
(*                          (o = "never": its own context ended it, after  *)
(*                          after_ms); intact: the buffer it was given     *)
(*                          still holds the query                          *)
(*   UpCtxDone(cid, after_ms)  the context of that exchange ended before the *)
(*                          harness released it, after_ms after it started *)
(*   Collected              schedule point: the collector took a result    *)
(*   Cancel                 the harness ended the caller's context         *)
(*   Return(k, cid)         Exec returned: reply of exchange cid / failed /*)
(*                          ctx                                            *)
(*   Quiet                  the harness waited >= 3 s without doing        *)
(*                          anything and the call has not returned: it is  *)
(*                          still collecting and no step of the code is    *)
(*                          enabled (this is how                           *)
(*                          "never outlives its context" / "returned at    *)
(*                          once" are observed; generous real-time bound)  *)
(*   End(alive)             all exchanges ended; helper goroutines left    *)
(* Silent: Collect (only without the schedule point) QuitDone CallerCtx    *)
(* CloseDone.  Which worker of the spec made which call is chosen by TLC   *)
(* (start is chosen at Start and must explain every position).             *)
(***************************************************************************)
EXTENDS Forward, IOUtils

VARIABLES l, wcid, pt

Trace == ndJsonDeserialize(IOEnv.TRACE_FILE)
tvars == <<vars, l, wcid, pt>>
Ev == Trace[l]
IsEvent(e) == l <= Len(Trace) /\ Ev.ev = e /\ l' = l + 1

TimeoutSlackMs == 6500
TimeoutMinMs == 4900

TraceInit == l = 1 /\ Init /\ wcid = [i \in 1..5 |-> 0] /\ pt = FALSE

Reset ==
    /\ IsEvent("Start")
    /\ n' = Ev.n /\ c' = Ev.c /\ start' \in 0..(Ev.n - 1) /\ pt' = Ev.pt
    /\ wpc' = [i \in 1..5 |-> "init"] /\ pos' = [i \in 1..5 |-> -1] /\ out' = [i \in 1..5 |-> "na"]
    /\ collected' = <<>> /\ cpc' = "collect" /\ result' = NoRes
    /\ done' = FALSE /\ ctxDone' = FALSE /\ hist' = <<>>
    /\ wcid' = [i \in 1..5 |-> 0]

Logged ==
    \/ /\ IsEvent("Asked") /\ Ev.same /\ Ev.ddl
       /\ \E i \in W : Ask(i) /\ pos'[i] = Ev.pos /\ wcid' = [wcid EXCEPT ![i] = Ev.cid]
       /\ UNCHANGED pt
    \/ /\ IsEvent("Release") /\ Ev.intact
       /\ Ev.o = "never" => ("after_ms" \in DOMAIN Ev => Ev.after_ms <= TimeoutSlackMs)
       /\ \E i \in W : wcid[i] = Ev.cid /\ Finish(i, Ev.o)
       /\ UNCHANGED <<wcid, pt>>
    \* the context handed to an exchange ended before the harness released it (the harness upstream then
    \* returns the context's error, like a real transport): allowed only once the call has returned
    \* (stragglers may be told to stop) or when the 5 s upstream timeout has passed
    \/ /\ IsEvent("UpCtxDone") /\ Ev.intact
       /\ done \/ (Ev.after_ms >= TimeoutMinMs /\ Ev.after_ms <= TimeoutSlackMs)
       /\ \E i \in W : wcid[i] = Ev.cid /\ Finish(i, "never")
       /\ UNCHANGED <<wcid, pt>>
    \/ /\ IsEvent("Collected") /\ pt
       /\ \E i \in W : Collect(i)
       /\ UNCHANGED <<wcid, pt>>
    \/ IsEvent("Cancel") /\ Cancel /\ UNCHANGED <<wcid, pt>>
    \/ /\ IsEvent("Return")
       /\ cpc = "done" /\ result.k = Ev.k
       /\ Ev.k = "reply" => wcid[result.w] = Ev.cid
       /\ UNCHANGED <<vars, wcid, pt>>
    \/ IsEvent("Quiet") /\ cpc = "collect" /\ Quiescent /\ UNCHANGED <<vars, wcid, pt>>
    \/ /\ IsEvent("End")
       /\ Ev.alive = 0 /\ done /\ \A i \in W : wpc[i] = "quit"
       /\ UNCHANGED <<vars, wcid, pt>>

Silent ==
    /\ l <= Len(Trace) /\ UNCHANGED <<l, wcid, pt>>
    /\ \/ \E i \in W : (~pt /\ Collect(i)) \/ QuitDone(i)
       \/ CallerCtx \/ CloseDone

TraceNext == (Reset \/ Logged \/ Silent) /\ C14Inv' /\ TypeOK'

TraceSpec == TraceInit /\ [][TraceNext]_tvars

HWM == TLCSet(1, IF TLCGet(1) < l THEN l ELSE TLCGet(1))
HWMInit == TLCSet(1, 0)
ASSUME HWMInit
Accepted == PrintT(<<"HWM", TLCGet(1), Len(Trace)>>)
=============================================================================
