\* leg A: design, all kinds x listener behaviours, 1 call + a late call; invariants + Terminates (liveness)
SPECIFICATION FairSpec
CONSTANTS
  Kinds = {"tcp", "tls", "tcp+pipeline", "tls+pipeline", "udp"}
  Listens = {"accept", "refuse", "hang"}
  InitCalls = {1}
  LateCall = 2
  MaxD = 1
  EnvCancel = TRUE
  WithHist = FALSE
  Eager = FALSE
  Deviation = "none"
INVARIANTS TypeOK DialEndsOnTimeout ExchangeEndsOnDialTimeout CloseCancelsDial PendingCallsEndOnClose LaterCallsFailImmediately ResultSound
PROPERTIES Terminates
VIEW ViewNoHist
CHECK_DEADLOCK FALSE
