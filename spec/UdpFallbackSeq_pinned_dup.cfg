\* non-vacuity: a stale UDP reply of a finished exchange is taken for the current one -> OwnReply must fail
SPECIFICATION Spec
CONSTANTS
  N = 3
  MaxConn = 3
  MaxResend = 1
  MaxTries = 2
  MaxDup = 2
  TcChoices = {TRUE, FALSE}
  Overlap = FALSE
  Burst = 0
  EnvCancel = FALSE
  EnvClose = FALSE
  EnvDup = TRUE
  Matching = FALSE
  ReuseBusy = FALSE
  IdleOnCancel = FALSE
  ForgetKeepsIdle = FALSE
  DupAccepted = TRUE
  WithHist = FALSE
  Export = FALSE
INVARIANTS C17SeqInv
CHECK_DEADLOCK FALSE
