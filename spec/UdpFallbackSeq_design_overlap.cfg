\* leg A: 3 overlapping truncated exchanges, the server closes idle pooled connections at any time, bounded retry (2 attempts)
SPECIFICATION Spec
CONSTANTS
  N = 3
  MaxConn = 3
  MaxResend = 0
  MaxTries = 2
  MaxDup = 2
  TcChoices = {TRUE}
  Overlap = TRUE
  Burst = 0
  EnvCancel = FALSE
  EnvClose = TRUE
  EnvDup = FALSE
  Matching = FALSE
  ReuseBusy = FALSE
  IdleOnCancel = FALSE
  ForgetKeepsIdle = FALSE
  DupAccepted = FALSE
  WithHist = FALSE
  Export = FALSE
INVARIANTS TypeOK C17SeqInv BusyNotIdle
CHECK_DEADLOCK FALSE
