\* leg A (thorough): 2 calls, 2 dials (shared lazy dial, retry on another connection), tcp+pipeline and tls; invariants + Terminates (liveness)
SPECIFICATION FairSpec
CONSTANTS
  Kinds = {"tcp+pipeline", "tls"}
  Listens = {"accept", "hang"}
  InitCalls = {1, 2}
  LateCall = 0
  MaxD = 2
  EnvCancel = FALSE
  WithHist = FALSE
  Eager = FALSE
  Deviation = "none"
INVARIANTS TypeOK DialEndsOnTimeout ExchangeEndsOnDialTimeout CloseCancelsDial PendingCallsEndOnClose LaterCallsFailImmediately ResultSound
PROPERTIES Terminates
VIEW ViewNoHist
CHECK_DEADLOCK FALSE
