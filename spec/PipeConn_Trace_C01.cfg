\* leg C: traces of harness/drv_pipeconn against PipeConn.tla; invariants of {"C01"} conjoined to every step
SPECIFICATION TraceSpec
CONSTANTS
  Callers = {0, 1, 2, 3, 4, 5, 6, 7, 8, 9, 10, 11}
  M = 65536
  MaxCqs = {1}
  MaxCalls = 1000000
  StartQids = {0}
  Datagrams = {FALSE}
  UNBUFFERED_HANDOFF = FALSE
  RANDOM_SELECT = FALSE
  DOUBLE_COUNT = FALSE
  DEV = {}
  MaxStray = 1000000
  MaxDup = 1000000
  MaxCancel = 1000000
  MaxFault = 1000000
  WithHist = FALSE
  StrictClosed = FALSE
  GenFocus = "none"
  Props = {"C01"}
CONSTRAINT HWM
POSTCONDITION Accepted
CHECK_DEADLOCK FALSE
