\* non-vacuity: the ctx arm clears waitingResp unconditionally (seeded C02-2)
SPECIFICATION Spec
CONSTANTS
  NCalls = 2
  MaxDials = 2
  Policy = "code"
  MaxRetry = 2
  AttemptBound = 4
  RandomSelect = FALSE
  LockInOnce = FALSE
  Dev = {"ctx_clears_waiting"}
  MaxFaults = 2
  Kinds = {"eof", "silent"}
  OrderedStart = TRUE
  CancelCalls = {1}
  EnvTClose = FALSE
  Coarse = TRUE
  Eager = FALSE
  WithHist = FALSE
VIEW ViewNoHist
INVARIANTS NoSpuriousUnexpected

CHECK_DEADLOCK FALSE
