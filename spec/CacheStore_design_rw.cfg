\* leg A (1): two keys, capacity 1 (every second store evicts), lookups / stores / flushes, 3 threads, <= 4 calls
SPECIFICATION Spec
CONSTANTS
  Threads = {t1, t2, t3}
  Keys = {1, 2}
  MinCap = 1
  Sizes = {0}
  OpTypes = {"get", "store", "flush"}
  Exps = {"long"}
  MaxOps = 4
  MaxPerThread = 2
  Exact = FALSE
  Dev = "none"
  TraceMode = FALSE
  SkipBand = FALSE
  WithHist = FALSE
INVARIANTS TypeOK Bounded NoForeignValue NoExpiredValue NoStaleAfterOverwriteOrFlush RangeSound LenBounded
VIEW ViewNoHist
SYMMETRY ThreadSym
CHECK_DEADLOCK FALSE
