\* leg B generator: complete runs (every caller used all its calls) with their full schedule; used with -simulate
SPECIFICATION GenSpec
CONSTANTS
  Callers = {0, 1}
  M = 4
  MaxCqs = {2}
  MaxCalls = 1
  StartQids = {0}
  Datagrams = {FALSE}
  UNBUFFERED_HANDOFF = FALSE
  RANDOM_SELECT = FALSE
  DOUBLE_COUNT = FALSE
  DEV = {}
  MaxStray = 1
  MaxDup = 1
  MaxCancel = 1
  MaxFault = 1
  StrictClosed = FALSE
  GenFocus = "none"
  WithHist = TRUE
INVARIANTS Emit
CHECK_DEADLOCK FALSE
