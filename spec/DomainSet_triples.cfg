\* leg A + leg B generator: every ordered list of <= 3 rules over 1-label patterns (all types) x every name <= 3 labels
SPECIFICATION Spec
CONSTANTS
  MaxName = 3
  MaxPat = 1
  MaxRePat = 1
  KwLen = 1
  MaxRules = 3
  Defs = {"domain"}
  Types = {"full", "domain", "keyword", "regexp", "none"}
  SuffixMode = "label"
  OrderName = "fdrk"
  KeepDeepest = TRUE
  EmitAll = TRUE
INVARIANTS CheckEmit
CHECK_DEADLOCK FALSE
