\* non-vacuity: a cancelled, unanswered query puts its connection back into the idle pool (seeded C09-3)
SPECIFICATION Spec
CONSTANTS
  NCalls = 2
  MaxDials = 2
  Policy = "code"
  MaxRetry = 2
  AttemptBound = 4
  RandomSelect = FALSE
  LockInOnce = FALSE
  Dev = {"ctx_sets_idle"}
  MaxFaults = 2
  Kinds = {"eof", "silent"}
  OrderedStart = TRUE
  CancelCalls = {1}
  EnvTClose = FALSE
  Coarse = TRUE
  Eager = FALSE
  WithHist = FALSE
VIEW ViewNoHist
INVARIANTS OneAtATime

CHECK_DEADLOCK FALSE
