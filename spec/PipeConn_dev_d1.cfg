\* PipeConn_dev_d1.cfg6
SPECIFICATION Spec
CONSTANTS
  Callers = {0, 1}
  M = 4
  MaxCqs = {2}
  MaxCalls = 1
  StartQids = {3}
  Datagrams = {FALSE}
  UNBUFFERED_HANDOFF = TRUE
  RANDOM_SELECT = FALSE
  DOUBLE_COUNT = FALSE
  DEV = {}
  MaxStray = 0
  MaxDup = 0
  MaxCancel = 0
  MaxFault = 1
  StrictClosed = FALSE
  GenFocus = "none"
  WithHist = FALSE
INVARIANTS NoLoss
VIEW ViewNoHist
CHECK_DEADLOCK FALSE
