\* non-vacuity / D5 seen through the pipeline: the connection counts a written query twice -> an early caller is refused although limits are equal
SPECIFICATION Spec
CONSTANTS
  Callers = {0, 1, 2}
  Slots = {1, 2, 3}
  QLimits = {1, 2}
  CLimits = {1, 2}
  MaxCalls = 2
  MaxDialFail = 1
  DEAD_ADMITS = FALSE
  DONE_EARLY = FALSE
  DOUBLE_COUNT = TRUE
INVARIANTS NoRefusalIfEqual
CHECK_DEADLOCK FALSE
