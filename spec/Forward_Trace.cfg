SPECIFICATION TraceSpec
CONSTANTS
  Ns = {1}
  Cs = {1}
  Outcomes = {"good", "nx", "bad", "error", "garbage", "never"}
  EnvCancel = TRUE
  Eager = FALSE
  WithHist = FALSE
  Bug = "none"
CONSTRAINT HWM
POSTCONDITION Accepted
CHECK_DEADLOCK FALSE
