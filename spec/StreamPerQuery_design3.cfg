\* leg A (thorough): 3 callers, safety only
SPECIFICATION Spec
CONSTANTS
  Callers = {1, 2, 3}
  IdVals = {0, 1}
  Kinds = {"ok", "garbage", "status"}
  EnvCancel = TRUE
  EnvAbort = TRUE
  Eager = FALSE
  WithHist = FALSE
  Deviation = "none"
INVARIANTS TypeOK OwnReply WireIdZero RequestIsOwnQuery CallerBufferUntouched ErrOnBadReply
VIEW ViewNoHist
CHECK_DEADLOCK FALSE
