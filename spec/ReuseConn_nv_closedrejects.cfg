\* non-vacuity
SPECIFICATION Spec
CONSTANTS
  NCalls = 2
  MaxDials = 2
  Policy = "code"
  MaxRetry = 2
  AttemptBound = 4
  RandomSelect = FALSE
  LockInOnce = FALSE
  Dev = {"accept_after_close"}
  MaxFaults = 0
  Kinds = {"eof"}
  OrderedStart = TRUE
  CancelCalls = {}
  EnvTClose = TRUE
  Coarse = TRUE
  Eager = FALSE
  WithHist = FALSE
VIEW ViewNoHist
INVARIANTS ClosedRejects

CHECK_DEADLOCK FALSE
