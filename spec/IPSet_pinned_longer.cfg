\* non-vacuity: the merge keeps the LONGER of two equal-base prefixes => PipelineOK must fail
SPECIFICATION Spec
CONSTANTS
  W = 4
  L4 = 1
  B4s = {1}
  Fams = {"v4", "v6"}
  HostBits = FALSE
  MaxLen = 3
  KeepRule = "longer"
  DoMask = TRUE
  GenOnly = FALSE
  EmitAll = FALSE
INVARIANTS PipelineOK
CHECK_DEADLOCK FALSE
