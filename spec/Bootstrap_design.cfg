SPECIFICATION FairSpec
CONSTANTS
  Callers = {c1, c2}
  Addrs = {1, 2}
  MaxNow = 5
  MinInt = 2
  WithHist = FALSE
  RETRY_AT_ONCE = FALSE
INVARIANTS TypeOK AtMostOneUpdate NoEarlyRetry ReturnedIsResolved ReadyHasAddr CtxOnlyIfCtx
PROPERTIES CallEnds
VIEW ViewNoHist
CHECK_DEADLOCK FALSE
