\* leg A: all list lengths x concurrency settings x outcome vectors x finish/collect orders x cancel points
\* safety + "the call never outlives its context" (fairness of the code only: upstreams may stay silent)
SPECIFICATION FairCode
CONSTANTS
  Ns = {1, 2, 3}
  Cs <- CsFull
  Outcomes = {"good", "nx", "bad", "error", "garbage", "never"}
  EnvCancel = TRUE
  Eager = FALSE
  WithHist = FALSE
  Bug = "none"
VIEW ViewNoHist
INVARIANTS TypeOK AskedSet FirstGoodWins LastDecides NoMasking ResultSound
PROPERTIES CtxBounds
CHECK_DEADLOCK FALSE
