\* leg A quick (C08): retries; 2 calls, up to 2 killed connections, no cancel / Close
SPECIFICATION Spec
CONSTANTS
  NCalls = 2
  MaxDials = 2
  Policy = "code"
  MaxRetry = 2
  AttemptBound = 4
  RandomSelect = FALSE
  LockInOnce = FALSE
  Dev = {}
  MaxFaults = 2
  Kinds = {"eof", "silent"}
  OrderedStart = TRUE
  CancelCalls = {}
  EnvTClose = FALSE
  Coarse = TRUE
  Eager = FALSE
  WithHist = FALSE
VIEW ViewNoHist
INVARIANTS TypeOK FailOnlyWhen AttemptsBounded NoLoss ErrOnFault ClosedRejects CloseWakesAll ArmedIsShortWhenOwed OneAtATime IdleSound NoSpuriousUnexpected NoLockCycle

CHECK_DEADLOCK FALSE
