----------------------- MODULE DualSelector_Trace -----------------------
(***************************************************************************)
(* Leg C for DualSelector.tla.  Events: NewSel (fresh selector: full reset),*)
(* Call(k), DirectFinish(o) / RefFinish(o) / OrgFinish(o) (the harness lets *)
(* the rest of the chain return outcome o for that role), Cancel,          *)
(* Return(res, o, ncalls, qok).  Silent: Sel1, Sel2, TimerFire.            *)
(* early = logged < 250 ms after the original query was released, i.e. the *)
(* 500 ms reference timer cannot have fired.                               *)
(***************************************************************************)
EXTENDS DualSelector, IOUtils

VARIABLE l
Trace == ndJsonDeserialize(IOEnv.TRACE_FILE)
tvars == <<vars, l>>
Ev == Trace[l]
IsEvent(e) == l <= Len(Trace) /\ Ev.ev = e /\ l' = l + 1
Early == ("early" \in DOMAIN Ev /\ Ev.early) => ~timerFired

TraceInit == l = 1 /\ Init

Reset ==
    /\ IsEvent("NewSel")
    /\ cache' = FALSE /\ ncall' = 0 /\ kind' = "na" /\ timerMay' = Ev.timerMay
    /\ cpc' = "idle" /\ result' = "na"
    /\ rpc' = "na" /\ rout' = "na" /\ opc' = "na" /\ oout' = "na"
    /\ shouldBlock' = FALSE /\ shouldPass' = FALSE /\ doneChan' = FALSE
    /\ timerFired' = FALSE /\ ctxDone' = FALSE /\ nextCalls' = 0 /\ cacheAtStart' = FALSE
    /\ hist' = <<>>

Logged ==
    \/ IsEvent("Call") /\ Call(Ev.k)
    \/ IsEvent("DirectFinish") /\ DirectFinish(Ev.o)
    \/ IsEvent("RefFinish") /\ Early /\ RefFinish(Ev.o)
    \/ IsEvent("OrgFinish") /\ OrgFinish(Ev.o)
    \/ IsEvent("Cancel") /\ Cancel
    \/ IsEvent("Return") /\ Early /\ cpc = "done" /\ result = Ev.res /\ Ev.ncalls <= nextCalls /\ Ev.qok
         /\ (Ev.res \in {"orig", "direct"} => oout = Ev.o)
         /\ UNCHANGED vars

Silent == l <= Len(Trace) /\ UNCHANGED l /\ (Sel1 \/ Sel2 \/ TimerFire)

TraceNext == (Reset \/ Logged \/ Silent) /\ DSInv'
TraceSpec == TraceInit /\ [][TraceNext]_tvars

HWM == TLCSet(1, IF TLCGet(1) < l THEN l ELSE TLCGet(1))
ASSUME TLCSet(1, 0)
Accepted == PrintT(<<"HWM", TLCGet(1), Len(Trace)>>)
=============================================================================
