SPECIFICATION TraceSpec
CONSTANTS
  Prop = "C15"
  Kinds = {"up"}
  MaxLen = 8
  Mals = {"ok"}
  CSizes = {512}
  COptSets <- NoOptions
  CVers = {0}
  WithNoOpt = TRUE
  UMsgs <- UMsgsTrace
  UOptSets <- UOptsAll
  Transports = {"udp", "tcp"}
  Caches = {"empty", "own", "redir", "other"}
  Dev = {}
  WithHist = FALSE
CONSTRAINT HWM
POSTCONDITION Accepted
CHECK_DEADLOCK FALSE
