\* leg A: design (private request object per call), 2 callers, all reply kinds, cancel, reset/timeout; safety + liveness
SPECIFICATION FairSpec
CONSTANTS
  Callers = {1, 2}
  IdVals = {0, 1}
  Kinds = {"ok", "garbage", "short", "status"}
  EnvCancel = TRUE
  EnvAbort = TRUE
  Eager = FALSE
  WithHist = FALSE
  Deviation = "none"
INVARIANTS TypeOK OwnReply WireIdZero RequestIsOwnQuery CallerBufferUntouched ErrOnBadReply
PROPERTIES Terminates CtxEnds
VIEW ViewNoHist
CHECK_DEADLOCK FALSE
