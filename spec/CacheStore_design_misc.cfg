\* leg A (3): two keys, capacity 1, lookups / stores / deletes / Len / Range (dump), 3 threads, <= 4 calls
SPECIFICATION Spec
CONSTANTS
  Threads = {t1, t2, t3}
  Keys = {1, 2}
  MinCap = 1
  Sizes = {0}
  OpTypes = {"get", "store", "del", "len", "range"}
  Exps = {"long"}
  MaxOps = 4
  MaxPerThread = 2
  Exact = FALSE
  Dev = "none"
  TraceMode = FALSE
  SkipBand = FALSE
  WithHist = FALSE
INVARIANTS TypeOK Bounded NoForeignValue NoExpiredValue NoStaleAfterOverwriteOrFlush RangeSound LenBounded
VIEW ViewNoHist
SYMMETRY ThreadSym
CHECK_DEADLOCK FALSE
