\* leg B generator (simulation): write / chunked read / cut scripts with deliveries and final outcome
SPECIFICATION Spec
CONSTANTS
  B = 4
  MIN = 1
  Writers = {1, 2, 3}
  Lens = {0, 1, 2, 3, 5, 6, 16, 17}
  MinAccepts = {TRUE, FALSE}
  MaxCut = 3
  SplitWrite = FALSE
  NoMaxCheck = FALSE
  NoMinCheck = FALSE
  ResumeFresh = FALSE
  NoReadFull = FALSE
  WithHist = TRUE
  Export = TRUE
INVARIANTS Emit
CHECK_DEADLOCK FALSE
