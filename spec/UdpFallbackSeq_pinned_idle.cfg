\* non-vacuity: a cancelled exchange hands its connection back to the idle pool -> OwnReply must fail
SPECIFICATION Spec
CONSTANTS
  N = 3
  MaxConn = 3
  MaxResend = 1
  Matching = FALSE
  ReuseBusy = FALSE
  IdleOnCancel = TRUE
  WithHist = FALSE
  Export = FALSE
INVARIANTS C17SeqInv
CHECK_DEADLOCK FALSE
