\* leg B generator: complete behaviours (environment + boundary events) of the repaired design
SPECIFICATION Spec
CONSTANTS
  NCalls = 3
  MaxDials = 3
  Policy = "code"
  MaxRetry = 2
  AttemptBound = 4
  RandomSelect = FALSE
  LockInOnce = FALSE
  Dev = {}
  MaxFaults = 2
  Kinds = {"eof", "silent"}
  OrderedStart = TRUE
  CancelCalls = {1, 2}
  EnvTClose = TRUE
  Coarse = TRUE
  Eager = FALSE
  WithHist = TRUE
INVARIANTS Emit
CHECK_DEADLOCK FALSE
