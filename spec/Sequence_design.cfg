\* leg A: every program within the bound (profile "flow"; checks/C06.py substitutes the CONSTANTS of
\* the other profiles), all interleavings of concurrent query copies; C06 invariants + termination
SPECIFICATION FairSpec
CONSTANTS
  MaxSeq = 2
  MaxRules = 2
  MaxMatch = 0
  MKinds = {"T", "F", "E"}
  Negs = {TRUE, FALSE}
  Acts = {"nop", "accept", "return", "jump", "goto", "wpost", "reject"}
  RejectCodes = {5, 3}
  MaxMulti = 1
  MaxConc = 1
  Sched = "free"
  Bug = "none"
INVARIANTS TypeOK ActionNeedsMatch ShortCircuit ErrorAborts InOrder ContinuationReusable Quiescent
PROPERTIES Terminates
CHECK_DEADLOCK FALSE
