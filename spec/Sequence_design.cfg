\* leg A: all programs within the bound, all interleavings of concurrent copies; C06 invariants
SPECIFICATION FairSpec
CONSTANTS
  MaxSeq = 2
  MaxRules = 2
  MaxMatch = 1
  MKinds = {"T", "F", "E"}
  Negs = {TRUE, FALSE}
  Acts = {"nop", "perr", "wpost", "wtwice", "wconc", "accept", "return", "jump", "goto"}
  RejectCodes = {5}
  MaxMulti = 1
  MaxConc = 1
  Sched = "free"
  Bug = "none"
INVARIANTS TypeOK ActionNeedsMatch ShortCircuit ErrorAborts InOrder ContinuationReusable Quiescent
PROPERTIES Terminates
CHECK_DEADLOCK FALSE
