--------------------------- MODULE LazyPipeline ---------------------------
(***************************************************************************)
(* pkg/upstream/transport/pipeline.go (PipelineTransport) +                *)
(* conn_lazy_dial.go (lazyDnsConn).  The pipelined connection below the    *)
(* lazy connection is abstract: [health, inuse <= ConnCap, closed] with    *)
(* the contract of DnsConn / PipeConn.tla (ReserveNewQuery refuses when    *)
(* full, reports closed when dead; a dead connection fails every exchange  *)
(* in flight; an exchange ends with reply | error | ctx).                  *)
(*                                                                         *)
(*  caller  Start, GetRX (getReservedExchanger under t.m: scan conns, drop *)
(*          closed ones, early reservation on a dialing conn, else new     *)
(*          lazy conn), EarlyWake / EarlyCtx (select of the early          *)
(*          exchanger: re-reserve on the real conn, earlyReserveCallWg),   *)
(*          ExchReq / ExchOk / ExchFail / ExchCtx (ExchangeReserved on the *)
(*          real conn), Retry / Fail (retry decision)                      *)
(*  dial goroutine of a lazy conn  DialInvoke, DialOk, DialErr             *)
(*  transport Close  TCloseStart, TCloseLock, TCloseOne, TCloseEnd         *)
(*  environment  Kill(x, "stale" | "dead"), Cancel(c)                      *)
(* Later callers reserve on a dialled connection only after every early    *)
(* caller has re-reserved (earlyReserveCallWg.Wait in ReserveNewQuery):    *)
(* guard wg[x] = 0; deviation switch NoWgWait removes it.                  *)
(***************************************************************************)
EXTENDS Integers, Sequences, FiniteSets, TLC, Json

CONSTANTS
    NCalls, MaxDials,
    QueueLimit,    \* MaxConcurrentQueryWhileDialing
    ConnCap,       \* capacity of a dialled connection
    Policy,        \* "code" | "any"
    MaxRetry,      \* the code's constant (2): retry < MaxRetry
    AttemptBound,  \* the contract's bound on attempts / connections per query (4)
    Dev,           \* set of further deviation switches (non-vacuity configs only), {} in every real config
    Eager,         \* TRUE: the environment moves only when the code cannot (leg B generator)
    NoWgWait,      \* deviation: later callers do not wait for the early callers
    ExactScan,     \* TRUE: a new connection is dialled only if no pooled one can take the query (leg A)
    MaxFaults, Kinds, CancelCalls, EnvTClose, OrderedStart, WithHist

Calls == 1..NCalls
ConnIds == 1..MaxDials

VARIABLES
    pc, att, isNew, cur, ctxDone, res,              \* calls
    writes, used, failOK, startedClosed, got,       \* call history
    lz, lclosed, early, wg, hid,                    \* lazy conns: lz = "none" | "dialing" | "dialed" | "failed"
    dpc,                                            \* dial goroutine: "none" | "spawned" | "dialing" | "done"
    health, inuse, uclosed,                         \* real conn below: health = "na" | "ok" | "stale" | "dead"
    tclosed, tm, conns, cl, nd,
    ndmax,                                          \* number of dials available (= MaxDials; a trace states its own total)
    flip,                                           \* trace validation only (see GetRX), constant in leg A
    spurious, hist

callVars == <<pc, att, isNew, cur, ctxDone, res>>
chistVars == <<writes, used, failOK, startedClosed, got>>
lzVars == <<lz, lclosed, early, wg, hid, dpc>>
uVars == <<health, inuse, uclosed>>
tVars == <<tclosed, tm, conns, cl, nd, ndmax>>
vars == <<callVars, chistVars, lzVars, uVars, tVars, flip, spurious, hist>>

H(e) == hist' = IF WithHist THEN Append(hist, e) ELSE hist
NoH == UNCHANGED hist

Init ==
    /\ pc = [c \in Calls |-> "na"] /\ att = [c \in Calls |-> 0] /\ isNew = [c \in Calls |-> FALSE]
    /\ cur = [c \in Calls |-> 0] /\ ctxDone = [c \in Calls |-> FALSE] /\ res = [c \in Calls |-> "na"]
    /\ writes = [c \in Calls |-> 0] /\ used = [c \in Calls |-> {}] /\ failOK = [c \in Calls |-> TRUE]
    /\ startedClosed = [c \in Calls |-> FALSE] /\ got = [c \in Calls |-> FALSE]
    /\ lz = [x \in ConnIds |-> "none"] /\ lclosed = [x \in ConnIds |-> FALSE]
    /\ early = [x \in ConnIds |-> 0] /\ wg = [x \in ConnIds |-> 0] /\ hid = [x \in ConnIds |-> 0]
    /\ dpc = [x \in ConnIds |-> "none"]
    /\ health = [x \in ConnIds |-> "na"] /\ inuse = [x \in ConnIds |-> 0] /\ uclosed = [x \in ConnIds |-> FALSE]
    /\ tclosed = FALSE /\ tm = "free" /\ conns = {} /\ cl = "idle" /\ nd = 0 /\ ndmax = MaxDials
    /\ flip = [c \in Calls |-> {}]
    /\ spurious = FALSE /\ hist = <<>>

UDead(x) == health[x] = "dead" \/ uclosed[x]
\* what lazyDnsConn.ReserveNewQuery reports
ReportsClosed(x) == lz[x] = "failed" \/ (lz[x] = "dialed" /\ UDead(x))
CanEarly(x) == lz[x] = "dialing" /\ (early[x] < QueueLimit \/ "no_queue_limit" \in Dev)
WgOK(x) == NoWgWait \/ wg[x] = 0
CanReal(x) == lz[x] = "dialed" /\ ~UDead(x) /\ inuse[x] < ConnCap /\ WgOK(x)
Blocked(x) == lz[x] = "dialed" /\ ~WgOK(x)

\* getReservedExchanger scans the pool while other goroutines run: a connection that refused the scanning
\* caller may have become usable by the time the scan ends.  GetRX is atomic in this spec; for recorded
\* traces (~ExactScan) flip[c] collects the connections on which a capacity-freeing event (an exchange
\* returned, a dial finished, any cancellation) was logged since c's own last logged event, i.e. possibly
\* during c's scan; such a connection does not forbid dialling a new one.
FlipAll(c0, xs) == flip' = IF ExactScan THEN flip
                           ELSE [d \in Calls |-> IF d = c0 THEN {} ELSE flip[d] \cup xs]
NoFlip == UNCHANGED flip

Start(c) ==
    /\ pc[c] = "na" /\ pc' = [pc EXCEPT ![c] = "get"]
    /\ OrderedStart => \A d \in Calls : d < c => pc[d] # "na"
    /\ startedClosed' = [startedClosed EXCEPT ![c] = (cl = "done")]
    /\ H([a |-> "Start", c |-> c])
    /\ UNCHANGED <<att, isNew, cur, ctxDone, res, writes, used, failOK, got, lzVars, uVars, tVars, spurious>>
    /\ FlipAll(c, {})

FailNowOK(c) == isNew[c] \/ ctxDone[c] \/ tclosed \/ att[c] >= 2

GetRX(c) ==
    /\ pc[c] = "get" /\ tm = "free"
    /\ att' = [att EXCEPT ![c] = @ + 1]
    /\ got' = [got EXCEPT ![c] = FALSE]
    /\ \/ /\ tclosed /\ "accept_after_close" \notin Dev
          /\ pc' = [pc EXCEPT ![c] = "done"] /\ res' = [res EXCEPT ![c] = "tclosed"]
          /\ failOK' = [failOK EXCEPT ![c] = TRUE]
          /\ UNCHANGED <<isNew, cur, lz, early, wg, dpc, inuse, conns, nd, ndmax>>
       \/ /\ ~tclosed \/ "accept_after_close" \in Dev
          /\ \E x \in conns : \E drop \in (IF ExactScan THEN SUBSET {y \in conns : ReportsClosed(y)}
                                                        ELSE {{y \in conns : ReportsClosed(y)}}) :
               /\ CanEarly(x) \/ CanReal(x)
               /\ conns' = conns \ drop
               /\ cur' = [cur EXCEPT ![c] = x] /\ isNew' = [isNew EXCEPT ![c] = FALSE]
               /\ IF CanEarly(x)
                    THEN /\ early' = [early EXCEPT ![x] = @ + 1] /\ wg' = [wg EXCEPT ![x] = @ + 1]
                         /\ pc' = [pc EXCEPT ![c] = "early"] /\ UNCHANGED inuse
                    ELSE /\ inuse' = [inuse EXCEPT ![x] = @ + 1]
                         /\ pc' = [pc EXCEPT ![c] = "ready"] /\ UNCHANGED <<early, wg>>
          /\ UNCHANGED <<res, failOK, lz, dpc, nd, ndmax>>
       \/ /\ (~tclosed \/ "accept_after_close" \in Dev) /\ nd < ndmax
          /\ \A x \in conns : (~CanEarly(x) /\ ~CanReal(x) /\ ~Blocked(x)) \/ (~ExactScan /\ x \in flip[c])
          /\ LET x == nd + 1 IN
               /\ nd' = x
               /\ conns' = (conns \ {y \in conns : ReportsClosed(y)}) \cup {x}
               /\ lz' = [lz EXCEPT ![x] = "dialing"] /\ dpc' = [dpc EXCEPT ![x] = "spawned"]
               /\ early' = [early EXCEPT ![x] = 1] /\ wg' = [wg EXCEPT ![x] = 1]
               /\ cur' = [cur EXCEPT ![c] = x] /\ isNew' = [isNew EXCEPT ![c] = TRUE]
               /\ pc' = [pc EXCEPT ![c] = "early"]
          /\ UNCHANGED <<res, failOK, inuse>>
    /\ NoH
    /\ UNCHANGED <<ctxDone, writes, used, startedClosed, lclosed, hid, health, uclosed, tclosed, tm, cl, ndmax, spurious>>
    /\ NoFlip

\* early exchanger: dial finished
EarlyWake(c) ==
    /\ pc[c] = "early"
    /\ LET x == cur[c] IN
         /\ lz[x] \in {"dialed", "failed"} /\ (lz[x] = "failed" => "no_dial_wake" \notin Dev)
         /\ early' = [early EXCEPT ![x] = @ - 1]
         /\ IF lz[x] = "failed"
              THEN /\ pc' = [pc EXCEPT ![c] = "decide"] /\ res' = [res EXCEPT ![c] = "other"]
                   /\ UNCHANGED <<wg, inuse, spurious>>
              ELSE /\ wg' = [wg EXCEPT ![x] = @ - 1]
                   /\ IF ~UDead(x) /\ (inuse[x] < ConnCap \/ "no_cap_check" \in Dev)
                        THEN /\ inuse' = [inuse EXCEPT ![x] = @ + 1]
                             /\ pc' = [pc EXCEPT ![c] = "ready"]
                             /\ UNCHANGED <<res, spurious>>
                        ELSE /\ pc' = [pc EXCEPT ![c] = "decide"] /\ res' = [res EXCEPT ![c] = "other"]
                             /\ spurious' = (spurious \/ (~UDead(x) /\ ConnCap >= QueueLimit))
                             /\ UNCHANGED inuse
    /\ NoH
    /\ UNCHANGED <<att, isNew, cur, ctxDone, chistVars, lz, lclosed, hid, dpc, health, uclosed, tVars>>
    /\ NoFlip

EarlyCtx(c) ==
    /\ pc[c] = "early" /\ ctxDone[c]
    /\ early' = [early EXCEPT ![cur[c]] = @ - 1] /\ wg' = [wg EXCEPT ![cur[c]] = @ - 1]
    /\ pc' = [pc EXCEPT ![c] = "decide"] /\ res' = [res EXCEPT ![c] = "ctx"]
    /\ NoH
    /\ UNCHANGED <<att, isNew, cur, ctxDone, chistVars, lz, lclosed, hid, dpc, uVars, tVars, spurious>>
    /\ NoFlip

\* ExchangeReserved on the real connection: the query is written on exactly this connection
ExchReq(c) ==
    /\ pc[c] = "ready" /\ pc' = [pc EXCEPT ![c] = "exch"]
    /\ writes' = [writes EXCEPT ![c] = @ + 1] /\ used' = [used EXCEPT ![c] = @ \cup {cur[c]}]
    /\ H([a |-> "ExchReq", x |-> hid[cur[c]], c |-> c])
    /\ UNCHANGED <<att, isNew, cur, ctxDone, res, failOK, startedClosed, got, lzVars, uVars, tVars, spurious>>
    /\ NoFlip

ExchOk(c) ==
    /\ pc[c] = "exch" /\ health[cur[c]] = "ok" /\ ~uclosed[cur[c]]
    /\ inuse' = [inuse EXCEPT ![cur[c]] = @ - 1]
    /\ got' = [got EXCEPT ![c] = TRUE]
    /\ pc' = [pc EXCEPT ![c] = "done"] /\ res' = [res EXCEPT ![c] = "ok"]
    /\ H([a |-> "ExchRet", x |-> hid[cur[c]], c |-> c, r |-> "ok"])
    /\ UNCHANGED <<att, isNew, cur, ctxDone, writes, used, failOK, startedClosed, lzVars, health, uclosed, tVars, spurious>>
    /\ FlipAll(c, {cur[c]})

ExchFail(c) ==
    /\ pc[c] = "exch" /\ (health[cur[c]] \in {"stale", "dead"} \/ uclosed[cur[c]])
    /\ inuse' = [inuse EXCEPT ![cur[c]] = @ - 1]
    /\ health' = [health EXCEPT ![cur[c]] = "dead"]
    /\ IF "ok_on_fail" \in Dev THEN pc' = [pc EXCEPT ![c] = "done"] /\ res' = [res EXCEPT ![c] = "ok"]
                             ELSE pc' = [pc EXCEPT ![c] = "decide"] /\ res' = [res EXCEPT ![c] = "other"]
    /\ H([a |-> "ExchRet", x |-> hid[cur[c]], c |-> c, r |-> "err"])
    /\ UNCHANGED <<att, isNew, cur, ctxDone, chistVars, lzVars, uclosed, tVars, spurious>>
    /\ FlipAll(c, {cur[c]})

ExchCtx(c) ==
    /\ pc[c] = "exch" /\ ctxDone[c]
    /\ inuse' = IF "no_release" \in Dev THEN inuse ELSE [inuse EXCEPT ![cur[c]] = @ - 1]
    /\ pc' = [pc EXCEPT ![c] = "decide"] /\ res' = [res EXCEPT ![c] = "ctx"]
    /\ H([a |-> "ExchRet", x |-> hid[cur[c]], c |-> c, r |-> "ctx"])
    /\ UNCHANGED <<att, isNew, cur, ctxDone, chistVars, lzVars, health, uclosed, tVars, spurious>>
    /\ FlipAll(c, {cur[c]})

\* Contract freedom (Policy "any" only): a caller whose context has ended may give its reservation back
\* (WithdrawReserved) instead of starting the exchange.
Withdraw(c) ==
    /\ Policy = "any" /\ pc[c] = "ready" /\ ctxDone[c]
    /\ inuse' = [inuse EXCEPT ![cur[c]] = @ - 1]
    /\ pc' = [pc EXCEPT ![c] = "decide"] /\ res' = [res EXCEPT ![c] = "ctx"]
    /\ H([a |-> "Withdraw", x |-> hid[cur[c]]])
    /\ UNCHANGED <<att, isNew, cur, ctxDone, chistVars, lzVars, health, uclosed, tVars, spurious>>
    /\ NoFlip

CodeRetry(c) == ~isNew[c] /\ att[c] <= MaxRetry /\ ~ctxDone[c]
MayRetry(c) == CASE Policy = "code" -> CodeRetry(c)
                 [] Policy = "noretry" -> FALSE
                 [] OTHER -> att[c] <= 6
MayFail(c) == IF Policy = "code" THEN ~CodeRetry(c) ELSE TRUE

Retry(c) ==
    /\ pc[c] = "decide" /\ MayRetry(c)
    /\ pc' = [pc EXCEPT ![c] = "get"] /\ res' = [res EXCEPT ![c] = "na"]
    /\ NoH
    /\ UNCHANGED <<att, isNew, cur, ctxDone, chistVars, lzVars, uVars, tVars, spurious>>
    /\ NoFlip

Fail(c) ==
    /\ pc[c] = "decide" /\ MayFail(c)
    /\ pc' = [pc EXCEPT ![c] = "done"]
    /\ failOK' = [failOK EXCEPT ![c] = FailNowOK(c)]
    /\ NoH
    /\ UNCHANGED <<att, isNew, cur, ctxDone, res, writes, used, startedClosed, got, lzVars, uVars, tVars, spurious>>
    /\ NoFlip

------------------------------------------------------------------------------
\* dial goroutine of lazy conn x; h = the harness' number of this dial (design: h = x)

DialInvoke(x, h) ==
    /\ dpc[x] = "spawned" /\ dpc' = [dpc EXCEPT ![x] = "dialing"]
    /\ \A y \in ConnIds : hid[y] # h
    /\ hid' = [hid EXCEPT ![x] = h]
    /\ H([a |-> "Dial", x |-> h])
    /\ UNCHANGED <<callVars, chistVars, lz, lclosed, early, wg, uVars, tVars, spurious>>
    /\ NoFlip

DialOk(x) ==
    /\ dpc[x] = "dialing"
    /\ health' = [health EXCEPT ![x] = "ok"]
    /\ IF lclosed[x]
         THEN dpc' = [dpc EXCEPT ![x] = "closing"] /\ UNCHANGED lz    \* closed while dialing: dc.Close() follows
         ELSE dpc' = [dpc EXCEPT ![x] = "done"] /\ lz' = [lz EXCEPT ![x] = "dialed"]
    /\ H([a |-> "DialRet", x |-> hid[x], ok |-> TRUE])
    /\ UNCHANGED <<callVars, chistVars, lclosed, early, wg, hid, inuse, uclosed, tVars, spurious>>
    /\ FlipAll(0, {x})

DialCloseLate(x) ==
    /\ dpc[x] = "closing" /\ dpc' = [dpc EXCEPT ![x] = "done"]
    /\ uclosed' = [uclosed EXCEPT ![x] = TRUE]
    /\ H([a |-> "UClose", x |-> hid[x]])
    /\ UNCHANGED <<callVars, chistVars, lz, lclosed, early, wg, hid, health, inuse, tVars, spurious>>
    /\ NoFlip

DialErr(x) ==
    /\ dpc[x] = "dialing" /\ dpc' = [dpc EXCEPT ![x] = "done"]
    /\ lz' = [lz EXCEPT ![x] = "failed"]
    /\ H([a |-> "DialRet", x |-> hid[x], ok |-> FALSE])
    /\ UNCHANGED <<callVars, chistVars, lclosed, early, wg, hid, uVars, tVars, spurious>>
    /\ FlipAll(0, {x})

------------------------------------------------------------------------------
TCloseStart ==
    /\ EnvTClose /\ cl = "idle" /\ cl' = "start"
    /\ H([a |-> "TClose"])
    /\ UNCHANGED <<callVars, chistVars, lzVars, uVars, tclosed, tm, conns, nd, ndmax, spurious>>
    /\ NoFlip

TCloseLock ==
    /\ cl = "start" /\ tm = "free"
    /\ tclosed' = TRUE /\ tm' = "closer" /\ cl' = "locked"
    /\ NoH
    /\ UNCHANGED <<callVars, chistVars, lzVars, uVars, conns, nd, ndmax, spurious>>
    /\ NoFlip

\* lazyDnsConn.Close
TCloseOne(x) ==
    /\ cl = "locked" /\ x \in conns /\ ~lclosed[x]
    /\ lclosed' = [lclosed EXCEPT ![x] = TRUE]
    /\ IF lz[x] = "dialing"
         THEN lz' = [lz EXCEPT ![x] = "failed"] /\ UNCHANGED uclosed /\ NoH
         ELSE /\ UNCHANGED lz
              /\ IF lz[x] = "dialed" /\ "close_skips_dialed" \notin Dev
                   THEN /\ uclosed' = [uclosed EXCEPT ![x] = TRUE]
                        /\ IF health[x] # "dead" THEN H([a |-> "UClose", x |-> hid[x]]) ELSE NoH
                   ELSE UNCHANGED uclosed /\ NoH
    /\ UNCHANGED <<callVars, chistVars, early, wg, hid, dpc, health, inuse, tVars, spurious>>
    /\ NoFlip

TCloseEnd ==
    /\ cl = "locked" /\ \A x \in conns : lclosed[x]
    /\ tm' = "free" /\ cl' = "ret"
    /\ NoH
    /\ UNCHANGED <<callVars, chistVars, lzVars, uVars, tclosed, conns, nd, ndmax, spurious>>
    /\ NoFlip

\* Close has returned (observed by the controller)
TCloseObs ==
    /\ cl = "ret" /\ cl' = "done"
    /\ H([a |-> "TCloseRet"])
    /\ UNCHANGED <<callVars, chistVars, lzVars, uVars, tclosed, tm, conns, nd, ndmax, spurious>>
    /\ NoFlip

------------------------------------------------------------------------------
Kill(x, k) ==
    /\ health[x] = "ok" /\ ~uclosed[x]
    /\ Cardinality({y \in ConnIds : health[y] \in {"stale", "dead"}}) < MaxFaults
    /\ health' = [health EXCEPT ![x] = k]
    /\ H([a |-> "Kill", x |-> hid[x], k |-> k])
    /\ UNCHANGED <<callVars, chistVars, lzVars, inuse, uclosed, tVars, spurious>>
    /\ NoFlip

Cancel(c) ==
    /\ c \in CancelCalls /\ ~ctxDone[c] /\ pc[c] \notin {"na", "done"}
    /\ ctxDone' = [ctxDone EXCEPT ![c] = TRUE]
    /\ H([a |-> "Cancel", c |-> c])
    /\ UNCHANGED <<pc, att, isNew, cur, res, chistVars, lzVars, uVars, tVars, spurious>>
    /\ FlipAll(0, ConnIds)

------------------------------------------------------------------------------
CallProgress(c) ==
    GetRX(c) \/ EarlyWake(c) \/ EarlyCtx(c) \/ ExchReq(c) \/ ExchFail(c) \/ ExchCtx(c) \/ Retry(c) \/ Fail(c)
CloserStep == TCloseLock \/ (\E x \in ConnIds : TCloseOne(x)) \/ TCloseEnd \/ TCloseObs

\* steps of the code (a dead or closed connection fails its exchanges by itself)
CodeStep ==
    \/ \E c \in Calls : GetRX(c) \/ EarlyWake(c) \/ EarlyCtx(c) \/ ExchReq(c) \/ ExchCtx(c) \/ Retry(c) \/ Fail(c)
                          \/ (pc[c] = "exch" /\ UDead(cur[c]) /\ ExchFail(c))
    \/ \E x \in ConnIds : DialInvoke(x, x) \/ DialCloseLate(x)
    \/ CloserStep
EnvStep ==
    \/ \E c \in Calls : Start(c) \/ ExchOk(c) \/ ExchFail(c) \/ Cancel(c)
    \/ \E x \in ConnIds : DialOk(x) \/ DialErr(x)
    \/ \E x \in ConnIds, k \in Kinds : Kill(x, k)
    \/ TCloseStart

Next == CodeStep \/ (EnvStep /\ (Eager => ~ENABLED CodeStep))

Spec == Init /\ [][Next]_vars

\* A stale connection answers nothing: the real connection's own waiting-reply deadline makes the exchange
\* fail (PipeConn's liveness), hence ExchFail is fair; a dial returns (5 s dial context).  Silence of a
\* healthy server is Kill(x, "stale"); otherwise the exchange is answered (ExchOk fair).
Progress ==
    \/ \E c \in Calls : CallProgress(c) \/ ExchOk(c)
    \/ \E x \in ConnIds : DialInvoke(x, x) \/ DialOk(x) \/ DialErr(x) \/ DialCloseLate(x)
    \/ CloserStep
FairSpec == Spec /\ WF_vars(Progress)

------------------------------------------------------------------------------
Ended(c) == pc[c] = "done"
Failed(c) == Ended(c) /\ res[c] # "ok"

\* C08
FailOnlyWhen == \A c \in Calls : Failed(c) => failOK[c]
AttemptsBounded == \A c \in Calls : att[c] <= AttemptBound /\ writes[c] <= att[c] /\ Cardinality(used[c]) <= AttemptBound
\* C07
ErrOnFault == \A c \in Calls : (Ended(c) /\ res[c] = "ok") => got[c]
ClosedRejects == \A c \in Calls : (startedClosed[c] /\ Ended(c)) => (res[c] = "tclosed" /\ writes[c] = 0 /\ att[c] = 1)
CloseClosesAll == cl \in {"ret", "done"} => \A x \in conns : lclosed[x] /\ (lz[x] = "dialed" => uclosed[x])
\* C09
QueueBound == \A x \in ConnIds : early[x] >= 0 /\ early[x] <= QueueLimit /\ wg[x] >= 0
CapBound == \A x \in ConnIds : inuse[x] >= 0 /\ inuse[x] <= ConnCap
NoSpuriousRefusal == ~spurious
Active(c) == pc[c] \notin {"na", "done"}
NoLeak == (\A c \in Calls : ~Active(c)) => \A x \in ConnIds : inuse[x] = 0 /\ (lz[x] = "dialed" => wg[x] = 0)
                                                              /\ (lz[x] # "dialing" \/ early[x] = 0)

TypeOK ==
    /\ \A c \in Calls : pc[c] \in {"na", "get", "early", "ready", "exch", "decide", "done"}
    /\ \A x \in ConnIds : lz[x] \in {"none", "dialing", "dialed", "failed"}

LazyInv == FailOnlyWhen /\ AttemptsBounded /\ ErrOnFault /\ ClosedRejects /\ CloseClosesAll
           /\ QueueBound /\ CapBound /\ NoSpuriousRefusal /\ NoLeak

CallsEnd == \A c \in Calls : (pc[c] # "na") ~> Ended(c)
Released == (cl # "idle") ~> (cl = "done" /\ \A x \in ConnIds :
                 /\ dpc[x] \in {"none", "done"}
                 /\ (health[x] \in {"ok", "stale"} => uclosed[x]))

Quiescent == (\A c \in Calls : pc[c] = "done") /\ (\A x \in ConnIds : dpc[x] \in {"none", "done"}) /\ cl \in {"idle", "done"}
Emit == Quiescent => PrintT(<<"BEH", ToJson([steps |-> hist, res |-> res, att |-> att])>>)

ViewNoHist == <<callVars, chistVars, lzVars, uVars, tVars, flip, spurious>>
=============================================================================
