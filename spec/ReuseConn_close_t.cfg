\* leg A thorough (C07): Close + one fault, liveness
SPECIFICATION FairSpec
CONSTANTS
  NCalls = 2
  MaxDials = 2
  Policy = "code"
  MaxRetry = 2
  AttemptBound = 4
  RandomSelect = FALSE
  LockInOnce = FALSE
  Dev = {}
  MaxFaults = 1
  Kinds = {"silent"}
  OrderedStart = TRUE
  CancelCalls = {}
  EnvTClose = TRUE
  Coarse = TRUE
  Eager = FALSE
  WithHist = FALSE
VIEW ViewNoHist
INVARIANTS TypeOK FailOnlyWhen AttemptsBounded NoLoss ErrOnFault ClosedRejects CloseWakesAll ArmedIsShortWhenOwed OneAtATime IdleSound NoSpuriousUnexpected NoLockCycle
PROPERTIES CallsEnd Released
CHECK_DEADLOCK FALSE
