---------------------------- MODULE Bootstrap ----------------------------
(***************************************************************************)
(* pkg/upstream/bootstrap/bootstrap.go (extra coverage attached to C18:    *)
(* an upstream with a hostname and a bootstrap server dials ip:port where  *)
(* ip is what the bootstrap server answered and port is the configured one)*)
(*                                                                         *)
(*   CallStart(c)   GetAddrPortStr: tryUpdate (CAS on `updating`; start an *)
(*                  update goroutine iff now > nextUpdate), then wait      *)
(*   UpdateOk(a,t)  the update goroutine got address a with ttl class t    *)
(*   UpdateFail     no address / read error / 5 s timeout                  *)
(*   UpdateEnd      deferred updating.Store(false)                         *)
(*   Return(c)      ready (or already ready): return the current address   *)
(*   ReturnCtx(c)   the caller's context ended first                       *)
(*   Tick           abstract time: a Tick means "more than one retry       *)
(*                  interval (2 s) has certainly passed"; no Tick between  *)
(*                  two events means "certainly less"; MinInt Ticks =      *)
(*                  minimum update interval (5 min)                        *)
(***************************************************************************)
EXTENDS Naturals, Sequences, FiniteSets, TLC, Json

CONSTANTS
    Callers, Addrs, MaxNow, MinInt,
    WithHist,
    RETRY_AT_ONCE      \* deviation switch (non-vacuity): a failed update may be retried immediately

VARIABLES
    now, nextUpdate,           \* nextUpdate = 0 initially (zero time: always in the past)
    updating,                  \* the CAS flag
    upc,                       \* update goroutine: "none" | "query" | "end"
    ready, addr,               \* published address (0 = none)
    cpc, cres,                 \* per caller: "idle" | "wait" | "done";  result address / "ctx"
    cctx,                      \* per caller: context ended
    nUpdates,                  \* number of update goroutines started (history)
    lastStart,                 \* time the last update started (history)
    lastFailEnd,               \* time the last failed update finished, 0 if none or last succeeded (history)
    hist

vars == <<now, nextUpdate, updating, upc, ready, addr, cpc, cres, cctx, nUpdates, lastStart, lastFailEnd, hist>>
H(e) == hist' = IF WithHist THEN Append(hist, e) ELSE hist

Init ==
    /\ now = 1 /\ nextUpdate = 0 /\ updating = FALSE /\ upc = "none"
    /\ ready = FALSE /\ addr = 0
    /\ cpc = [c \in Callers |-> "idle"] /\ cres = [c \in Callers |-> 0] /\ cctx = [c \in Callers |-> FALSE]
    /\ nUpdates = 0 /\ lastStart = 0 /\ lastFailEnd = 0 /\ hist = <<>>

\* GetAddrPortStr: tryUpdate is one atomic CAS region as far as other callers can tell
CallStart(c) ==
    /\ cpc[c] = "idle"
    /\ cpc' = [cpc EXCEPT ![c] = "wait"]
    /\ IF ~updating /\ upc = "none" /\ (now > nextUpdate \/ (RETRY_AT_ONCE /\ lastFailEnd > 0))
         THEN updating' = TRUE /\ upc' = "query" /\ nUpdates' = nUpdates + 1 /\ lastStart' = now
         ELSE UNCHANGED <<updating, upc, nUpdates, lastStart>>
    /\ H([a |-> "CallStart", c |-> c])
    /\ UNCHANGED <<now, nextUpdate, ready, addr, cres, cctx, lastFailEnd>>

UpdateOk(a, long) ==
    /\ upc = "query" /\ a \in Addrs
    /\ addr' = a /\ ready' = TRUE
    /\ nextUpdate' = now + MinInt + (IF long THEN MinInt ELSE 0)   \* max(ttl, minimumUpdateInterval)
    /\ upc' = "end" /\ lastFailEnd' = 0
    /\ H([a |-> "UpdateOk", addr |-> a, long |-> long])
    /\ UNCHANGED <<now, updating, cpc, cres, cctx, nUpdates, lastStart>>

UpdateFail ==
    /\ upc = "query"
    /\ nextUpdate' = now          \* retryInterval: the next update may start in a strictly later time unit
    /\ upc' = "end" /\ lastFailEnd' = now
    /\ H([a |-> "UpdateFail"])
    /\ UNCHANGED <<now, updating, ready, addr, cpc, cres, cctx, nUpdates, lastStart>>

UpdateEnd ==
    /\ upc = "end" /\ upc' = "none" /\ updating' = FALSE
    /\ UNCHANGED <<now, nextUpdate, ready, addr, cpc, cres, cctx, nUpdates, lastStart, lastFailEnd, hist>>

Return(c) ==
    /\ cpc[c] = "wait" /\ ready
    /\ cpc' = [cpc EXCEPT ![c] = "done"] /\ cres' = [cres EXCEPT ![c] = addr]
    /\ UNCHANGED <<now, nextUpdate, updating, upc, ready, addr, cctx, nUpdates, lastStart, lastFailEnd, hist>>

Cancel(c) ==
    /\ cpc[c] = "wait" /\ ~cctx[c] /\ cctx' = [cctx EXCEPT ![c] = TRUE]
    /\ H([a |-> "Cancel", c |-> c])
    /\ UNCHANGED <<now, nextUpdate, updating, upc, ready, addr, cpc, cres, nUpdates, lastStart, lastFailEnd>>

ReturnCtx(c) ==
    /\ cpc[c] = "wait" /\ cctx[c]
    /\ cpc' = [cpc EXCEPT ![c] = "done"] /\ cres' = [cres EXCEPT ![c] = 99]      \* 99 = context error
    /\ UNCHANGED <<now, nextUpdate, updating, upc, ready, addr, cctx, nUpdates, lastStart, lastFailEnd, hist>>

\* a caller may call again
Again(c) ==
    /\ cpc[c] = "done" /\ cpc' = [cpc EXCEPT ![c] = "idle"] /\ cctx' = [cctx EXCEPT ![c] = FALSE]
    /\ UNCHANGED <<now, nextUpdate, updating, upc, ready, addr, cres, nUpdates, lastStart, lastFailEnd, hist>>

Tick ==
    /\ now < MaxNow /\ now' = now + 1
    /\ H([a |-> "Tick"])
    /\ UNCHANGED <<nextUpdate, updating, upc, ready, addr, cpc, cres, cctx, nUpdates, lastStart, lastFailEnd>>

Next ==
    \/ \E c \in Callers : CallStart(c) \/ Return(c) \/ Cancel(c) \/ ReturnCtx(c) \/ Again(c)
    \/ \E a \in Addrs, long \in BOOLEAN : UpdateOk(a, long)
    \/ UpdateFail \/ UpdateEnd \/ Tick

Spec == Init /\ [][Next]_vars
FairSpec == Spec /\ WF_vars(UpdateEnd) /\ \A c \in Callers : WF_vars(Return(c) \/ ReturnCtx(c))

------------------------------------------------------------------------------
\* at most one bootstrap query sequence in flight
AtMostOneUpdate == (upc # "none") => updating
\* a failed lookup is not retried before the retry interval has passed
NoEarlyRetry == (upc = "query" /\ lastFailEnd > 0) => lastStart > lastFailEnd
\* an address is only handed out once one has been resolved, and it is the published one
ReturnedIsResolved == \A c \in Callers : (cpc[c] = "done" /\ cres[c] # 99) => (ready /\ cres[c] \in Addrs)
ReadyHasAddr == ready => addr \in Addrs
CtxOnlyIfCtx == \A c \in Callers : (cpc[c] = "done" /\ cres[c] = 99) => cctx[c]
BSInv == AtMostOneUpdate /\ NoEarlyRetry /\ ReturnedIsResolved /\ ReadyHasAddr /\ CtxOnlyIfCtx

\* every waiting caller returns once an address is there or its context ended
CallEnds == \A c \in Callers : (cpc[c] = "wait" /\ (ready \/ cctx[c])) ~> (cpc[c] = "done")

TypeOK == upc \in {"none", "query", "end"} /\ now \in 1..MaxNow

\* behaviour export: schedules of GenLen scripted steps ending in a quiet state
GenLen == 9
Emit == (Len(hist) = GenLen /\ upc = "none") => PrintT(<<"BEH", ToJson([steps |-> hist])>>)
GenBound == Len(hist) <= GenLen

ViewNoHist == <<now, nextUpdate, updating, upc, ready, addr, cpc, cres, cctx, lastStart, lastFailEnd>>
=============================================================================
