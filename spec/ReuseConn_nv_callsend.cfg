\* non-vacuity (liveness): a waiting caller is not woken by the close of its connection
SPECIFICATION FairSpec
CONSTANTS
  NCalls = 2
  MaxDials = 2
  Policy = "code"
  MaxRetry = 2
  AttemptBound = 4
  RandomSelect = FALSE
  LockInOnce = FALSE
  Dev = {"no_close_wake"}
  MaxFaults = 1
  Kinds = {"eof"}
  OrderedStart = TRUE
  CancelCalls = {}
  EnvTClose = FALSE
  Coarse = TRUE
  Eager = FALSE
  WithHist = FALSE
VIEW ViewNoHist
INVARIANTS TypeOK
PROPERTIES CallsEnd
CHECK_DEADLOCK FALSE
