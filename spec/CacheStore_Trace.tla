------------------------- MODULE CacheStore_Trace -------------------------
(***************************************************************************)
(* Leg C: histories recorded from the real stores (harness/drv_cachestore) *)
(* checked against CacheStore.tla: TLC searches for a linearization.       *)
(*                                                                         *)
(* Logged events (one ndjson line each; sequence numbers are assigned      *)
(* under the recorder's single mutex: the Call line is written before the  *)
(* real call is made, the Ret line after it has returned, so every real-   *)
(* time precedence between two operations is also a precedence in the log) *)
(*   Reset(size, capmode)   a new store: capmode "min" = cap is            *)
(*                          CapOf(size) (pkg/cache), "exact" = cap is size *)
(*                          (documented capacity of concurrent_map / LRU)  *)
(*   Call(t, op, k, v, e, ph, res, rng)                                    *)
(*        op  in get store del len flush range                             *)
(*        v   value of a store (unique per history)                        *)
(*        e   expiry class of a store  "long" "short" "past"               *)
(*        ph  measured phase of the whole call: 0 = returned before        *)
(*            T-delta, 2 = invoked after T+delta, 1 = anything else        *)
(*        res result of get (0 = nothing) / len; rng = entries reported by *)
(*            range.  ph/res/rng are filled into the Call line once the    *)
(*            call has returned (same information as on the Ret line, only *)
(*            earlier in the file, which keeps the search linear).         *)
(*   Ret(t)                 the call of thread t has returned              *)
(* Silent: LinGet LinStore LinDel LinLen FlushStep RangeStep.              *)
(*                                                                         *)
(* Search reduction (Exact = FALSE only; every reduction keeps at least    *)
(* one representative of each accepting run, because the acceptance        *)
(* conditions are monotone in "entry still present"):                      *)
(*  - a lookup that answered nothing, and a Len, linearize at once         *)
(*  - Range observes an entry it reported as soon as the entry is current  *)
(*  - no eviction is chosen (the driver guarantees cap >= |Keys|; real     *)
(*    evictions are explained by lookups answering nothing)                *)
(*  - Flush clears a key either just before a pending Store of that key    *)
(*    linearizes, or all remaining keys when its Ret line is next          *)
(* With Exact = TRUE (sequential histories, leg B) the same actions are    *)
(* used without the eager rules.                                           *)
(* The C11 invariants are conjoined to every step: a history is accepted   *)
(* iff SOME behaviour of CacheStore explains it and satisfies C11.         *)
(***************************************************************************)
EXTENDS CacheStore, IOUtils

VARIABLE l

Trace == ndJsonDeserialize(IOEnv.TRACE_FILE)

tvars == <<vars, l>>

Ev == Trace[l]
IsEvent(e) == l <= Len(Trace) /\ Ev.ev = e /\ l' = l + 1
NextIsRetOf(t) == l <= Len(Trace) /\ Ev.ev = "Ret" /\ Ev.t = t

TraceInit ==
    /\ l = 1
    /\ Init

Reset ==
    /\ IsEvent("Reset")
    /\ cap' = IF Ev.capmode = "min" THEN CapOf(Ev.size) ELSE Ev.size
    /\ m' = [k \in Keys |-> NoEnt]
    /\ op' = [t \in Threads |-> Idle]
    /\ now' = 0
    /\ info' = <<>>
    /\ retd' = {} /\ dead' = {}
    /\ cnt' = [t \in Threads |-> 0]
    /\ hist' = <<>>

LoggedCall ==
    /\ IsEvent("Call")
    /\ Ev.t \in Threads
    /\ Ev.op \in {"get", "store", "del", "len", "flush", "range"}
    /\ Ev.op \in {"get", "store", "del"} => Ev.k \in Keys
    /\ Call(Ev.t, Ev.op, Ev.k, Ev.v, Ev.e, Ev.ph, Ev.res, Ev.rng)
    /\ UNCHANGED <<cnt, hist>>

LoggedRet ==
    /\ IsEvent("Ret")
    /\ Ev.t \in Threads
    /\ op[Ev.t].type = "range" =>
          /\ op[Ev.t].acc = {op[Ev.t].wantr[i] : i \in 1..Len(op[Ev.t].wantr)}
          /\ Cardinality(op[Ev.t].acc) = Len(op[Ev.t].wantr)
    /\ Ret(Ev.t)

\* entries a pending Range reported and can observe now
WantSet(t) == {op[t].wantr[i] : i \in 1..Len(op[t].wantr)}
Observable(t) == {p \in WantSet(t) \ op[t].acc : p[1] \in op[t].todo /\ m[p[1]].v = p[2]}

EagerThreads ==
    IF Exact THEN {}
    ELSE {t \in Threads :
            \/ op[t].type = "get" /\ ~op[t].done /\ op[t].want = 0
            \/ op[t].type = "len" /\ ~op[t].done
            \/ op[t].type = "range" /\ ~op[t].done /\ Observable(t) # {}}

Eager ==
    LET t == CHOOSE x \in EagerThreads : TRUE IN
    /\ UNCHANGED <<l, cnt, hist>>
    /\ CASE op[t].type = "get" -> LinGet(t, 0)
         [] op[t].type = "len" -> LinLen(t, op[t].want)
         [] OTHER -> LET p == CHOOSE q \in Observable(t) : TRUE
                     IN RangeStep(t, {p[1]}, {p[1]})

PendingStoreOn(k, t) == \E u \in Threads \ {t} : op[u].type = "store" /\ ~op[u].done /\ op[u].k = k

Silent ==
    /\ l <= Len(Trace)
    /\ UNCHANGED <<l, cnt, hist>>
    /\ \E t \in Threads :
         \/ op[t].type = "get" /\ LinGet(t, op[t].want)
         \/ \E eff \in BOOLEAN : LinStore(t, {}, eff)
         \/ LinDel(t)
         \/ Exact /\ LinLen(t, op[t].want)
         \/ \E k \in op[t].todo : PendingStoreOn(k, t) /\ FlushStep(t, {k})
         \/ NextIsRetOf(t) /\ op[t].todo # {} /\ FlushStep(t, op[t].todo)
         \/ Exact /\ \E k \in op[t].todo : <<k, m[k].v>> \in WantSet(t) /\ RangeStep(t, {k}, {k})
         \/ NextIsRetOf(t) /\ op[t].todo # {} /\ RangeStep(t, op[t].todo, {})

TraceNext ==
    /\ \/ Reset
       \/ IF EagerThreads # {} THEN Eager ELSE (LoggedCall \/ LoggedRet \/ Silent)
    /\ C11Inv'

TraceSpec == TraceInit /\ [][TraceNext]_tvars

\* high-water mark of the trace position (needs -workers 1)
HWM == TLCSet(1, IF TLCGet(1) < l THEN l ELSE TLCGet(1))
HWMInit == TLCSet(1, 0)
ASSUME HWMInit
Accepted == PrintT(<<"HWM", TLCGet(1), Len(Trace)>>)
=============================================================================
