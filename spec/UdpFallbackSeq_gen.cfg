\* leg B generator: every complete schedule of start / cancel / late answer steps with the results
SPECIFICATION Spec
CONSTANTS
  N = 3
  MaxConn = 3
  MaxResend = 0
  Matching = FALSE
  ReuseBusy = FALSE
  IdleOnCancel = FALSE
  WithHist = TRUE
  Export = TRUE
INVARIANTS Emit
CHECK_DEADLOCK FALSE
