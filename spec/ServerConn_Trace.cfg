SPECIFICATION TraceSpec
CONSTANTS
  Conns = {1, 2, 3}
  Ids = {1, 2, 3, 4, 5, 6}
  Mode = "tcp"
  WithHist = FALSE
  GenLen = 0
  MaxG = 1000
  WithWDL = TRUE
  DEV = "none"
CONSTRAINT HWM
POSTCONDITION Accepted
CHECK_DEADLOCK FALSE
