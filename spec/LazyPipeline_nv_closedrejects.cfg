\* non-vacuity
SPECIFICATION Spec
CONSTANTS
  NCalls = 2
  MaxDials = 2
  QueueLimit = 2
  ConnCap = 2
  Policy = "code"
  MaxRetry = 2
  AttemptBound = 4
  Dev = {"accept_after_close"}
  NoWgWait = FALSE
  ExactScan = TRUE
  MaxFaults = 0
  Kinds = {"stale", "dead"}
  CancelCalls = {}
  EnvTClose = TRUE
  OrderedStart = TRUE
  Eager = FALSE
  WithHist = FALSE
VIEW ViewNoHist
INVARIANTS ClosedRejects

CHECK_DEADLOCK FALSE
