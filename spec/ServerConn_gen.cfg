SPECIFICATION Spec
CONSTANTS
  Conns = {1, 2}
  Ids = {1, 2, 3, 4}
  Mode = "tcp"
  WithHist = TRUE
  MaxG = 1
  GenLen = 14
  WithWDL = FALSE
  DEV = "none"
INVARIANTS Emit
CONSTRAINT GenBound
CHECK_DEADLOCK FALSE
