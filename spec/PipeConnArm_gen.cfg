\* leg B generator (used with -simulate): 2 callers x 2 calls, 1 cancel: orders of the two arming sites, late replies, silence
SPECIFICATION GenSpec
CONSTANTS
  Callers = {0, 1}
  MaxCalls = 2
  MaxCancel = 1
  DEV = {}
  WithHist = TRUE
INVARIANTS Emit
CHECK_DEADLOCK FALSE
