\* leg A non-vacuity: the pinned order (done-signal before the answer is queued) must violate PrimaryWins
SPECIFICATION Spec
CONSTANTS
  Orders = {"signal_first"}
  Standbys = {TRUE, FALSE}
  TimerMays = {TRUE, FALSE}
  LazyCaller = FALSE
  EagerCaller = FALSE
  EnvCancel = TRUE
  EnvDeadline = TRUE
  WithHist = FALSE
INVARIANTS PrimaryWins
CHECK_DEADLOCK FALSE
