\* non-vacuity: handing the truncated UDP reply to the caller when the TCP retry fails must violate C17Inv
SPECIFICATION Spec
CONSTANTS
  TcpModes = {"answers", "refuses", "fails"}
  TestBit = "tc"
  MaxTcp = 3
  MaxUdp = 2
  GiveUpResult = "udp"
  Export = FALSE
INVARIANTS C17Inv
CHECK_DEADLOCK FALSE
