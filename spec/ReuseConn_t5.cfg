\* leg A (quick): repaired design (prefer delivered reply; t.m section before closeOnce), code's retry policy
SPECIFICATION Spec
CONSTANTS
  NCalls = 2
  MaxDials = 2
  Policy = "code"
  MaxRetry = 2
  RandomSelect = FALSE
  LockInOnce = FALSE
  MaxFaults = 0
  Kinds = {"eof", "silent"}
  OrderedStart = TRUE
  CancelCalls = {}
  EnvTClose = TRUE
  Coarse = TRUE
  WithHist = FALSE
VIEW ViewNoHist
INVARIANTS TypeOK FailOnlyWhen AttemptsBounded NoLoss ErrOnFault ClosedRejects CloseWakesAll ArmedIsShortWhenOwed OneAtATime IdleSound NoLockCycle
CHECK_DEADLOCK FALSE
