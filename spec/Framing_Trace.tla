--------------------------- MODULE Framing_Trace ---------------------------
(***************************************************************************)
(* Leg C for C16 (B = 256, MIN = 12). Two kinds of recorded runs.          *)
(*                                                                         *)
(* (i) reader runs: the real dnsutils.ReadRawMsgFromTCP is called in a     *)
(*     loop on a harness stream that serves scripted chunk sizes           *)
(*   Stream            new stream (reset)                                  *)
(*   Read(items)       the stream handed these bytes to a Read call;       *)
(*                     items: b >= 0 a literal byte, -n an opaque run of n *)
(*                     bytes the harness placed as the body of a frame     *)
(*   EOF               a Read call got io.EOF                              *)
(*   Out(len, eq)      the call returned a buffer of len bytes; eq = its   *)
(*                     content is the next len bytes of the stream         *)
(*   Err               the call returned an error                          *)
(*   Timeout           a Read call failed with a deadline error (transport *)
(*                     runs on a harness conn with real deadlines)         *)
(*   Close             the owner closed the connection                     *)
(*   CallerErr         an exchange on the transport returned an error      *)
(*   anything else (Panic, Hang) is not an action: the trace is rejected   *)
(*                                                                         *)
(* (ii) writer runs: every Write call a real writer (WriteRawMsgToTCP,     *)
(*     WriteMsgToTCP/PackTCPBuffer, the client transports, server.ServeTCP *)
(*     with K concurrent pipelined replies) issues on a harness conn       *)
(*   Conn(sizes)       new connection; sizes = lengths of the messages     *)
(*                     that are going to be written (any order)            *)
(*   Write(n, h, eq)   one Write call of n bytes whose first two bytes are *)
(*                     h; eq = bytes 2.. equal one scripted message        *)
(*   Refused(n)        the writer returned an error for a message of n     *)
(*                     bytes and wrote nothing                             *)
(*   ConnEnd           all messages accounted for                          *)
(***************************************************************************)
EXTENDS Framing, IOUtils

VARIABLES l, want, mode

Trace == ndJsonDeserialize(IOEnv.TRACE_FILE)
tvars == <<vars, l, want, mode>>
Ev == Trace[l]
IsEvent(e) == l <= Len(Trace) /\ Ev.ev = e /\ l' = l + 1

TraceInit == l = 1 /\ want = <<>> /\ mode = "none" /\ Init

Keep == UNCHANGED <<wire, wst, wlen, written, dropped, pos, delivered, hist>>

ResetReader ==
    /\ IsEvent("Stream")
    /\ mode' = "reader" /\ want' = <<>>
    /\ minAcc' \in BOOLEAN /\ rd' = Fresh /\ closed' = FALSE /\ outcome' = "run" /\ tmo' = FALSE /\ Keep

Boundary(r) == r.st = "hdr" /\ r.h = <<>> /\ r.inbuf = <<>>

Reader ==
    /\ mode = "reader" /\ UNCHANGED <<mode, want, minAcc>> /\ Keep
    /\ \/ /\ IsEvent("Read") /\ outcome = "run" /\ ~closed /\ rd.st \in {"hdr", "body"}
          /\ rd' = Feed(rd, Ev.items, minAcc) /\ rd'.st # "bad"
          /\ UNCHANGED <<closed, outcome>>
       \/ /\ IsEvent("EOF") /\ outcome = "run" /\ closed' = TRUE /\ UNCHANGED <<rd, outcome>>
       \/ /\ IsEvent("Out") /\ outcome = "run" /\ rd.st = "full"
          /\ Ev.len = rd.len /\ Ev.eq
          /\ Ev.len >= MIN /\ (Ev.len = MIN => minAcc)
          /\ rd' = AfterDeliver(rd, minAcc) /\ rd'.st # "bad"
          /\ UNCHANGED <<closed, outcome>>
       \* a Read call failed with a deadline error: between frames that is nobody's business; inside a
       \* frame either the stream is given up (error, final) or a resumable reader keeps its partial state
       \/ /\ IsEvent("Timeout") /\ outcome = "run"
          /\ \/ UNCHANGED outcome
             \/ MidFrame(rd) /\ outcome' = "err"
          /\ UNCHANGED <<rd, closed>>
       \* the connection was closed by its owner / a caller got an error: nothing to check
       \/ /\ IsEvent("Close") /\ closed' = TRUE /\ UNCHANGED <<rd, outcome>>
       \* an exchange on the transport ended in an error: says nothing about framing
       \/ /\ IsEvent("CallerErr") /\ UNCHANGED <<rd, closed, outcome>>
       \/ /\ IsEvent("Err") /\ outcome = "err" /\ UNCHANGED <<rd, closed, outcome>>
       \/ /\ IsEvent("Err") /\ outcome = "run"
          /\ \/ rd.st = "err" /\ outcome' = "err"
             \/ closed /\ rd.inbuf = <<>> /\ rd.st \in {"hdr", "body"}
                /\ outcome' = IF Boundary(rd) THEN "eof" ELSE "err"
          /\ UNCHANGED <<rd, closed>>
    /\ tmo' = (tmo \/ (l <= Len(Trace) /\ Ev.ev = "Timeout" /\ outcome = "run" /\ outcome' = "err"))

RemoveOne(s, x) ==
    LET i == CHOOSE j \in 1..Len(s) : s[j] = x IN SubSeq(s, 1, i - 1) \o SubSeq(s, i + 1, Len(s))
Has(s, x) == \E j \in 1..Len(s) : s[j] = x

ResetWriter ==
    /\ IsEvent("Conn")
    /\ mode' = "writer" /\ want' = Ev.sizes
    /\ rd' = Fresh /\ closed' = FALSE /\ outcome' = "run" /\ tmo' = FALSE /\ UNCHANGED minAcc /\ Keep

Writer ==
    /\ mode = "writer" /\ UNCHANGED <<mode, minAcc, rd, closed, outcome, tmo>> /\ Keep
    /\ \/ /\ IsEvent("Write")
          /\ WholeFrameLen(Ev.n, Ev.h)          \* OneWriteOneFrame
          /\ Ev.n - 2 <= MAX /\ Ev.eq /\ Has(want, Ev.n - 2)
          /\ want' = RemoveOne(want, Ev.n - 2)
       \/ /\ IsEvent("Refused")
          /\ Ev.n > MAX /\ Has(want, Ev.n)      \* OverMaxRefused: only over-long messages may be refused
          /\ want' = RemoveOne(want, Ev.n)
       \/ /\ IsEvent("ConnEnd") /\ want = <<>> /\ UNCHANGED want

TraceNext == (ResetReader \/ Reader \/ ResetWriter \/ Writer) /\ MalformedIsError'
TraceSpec == TraceInit /\ [][TraceNext]_tvars

HWM == TLCSet(1, IF TLCGet(1) < l THEN l ELSE TLCGet(1))
HWMInit == TLCSet(1, 0)
ASSUME HWMInit
Accepted == PrintT(<<"HWM", TLCGet(1), Len(Trace)>>)
=============================================================================
