\* leg A (quick): repaired design (prefer delivered reply; t.m section before closeOnce), code's retry policy
SPECIFICATION FairSpec
CONSTANTS
  NCalls = 2
  MaxDials = 2
  Policy = "code"
  MaxRetry = 2
  RandomSelect = FALSE
  LockInOnce = FALSE
  MaxFaults = 1
  Kinds = {"silent"}
  OrderedStart = TRUE
  CancelCalls = {1}
  EnvTClose = TRUE
  Coarse = TRUE
  WithHist = FALSE
VIEW ViewNoHist
INVARIANTS TypeOK FailOnlyWhen AttemptsBounded NoLoss ErrOnFault ClosedRejects CloseWakesAll ArmedIsShortWhenOwed OneAtATime IdleSound NoLockCycle
PROPERTIES CallsEnd Released
CHECK_DEADLOCK FALSE
