\* leg A (thorough): W = 5, masked prefixes, ordered lists of <= 3; -simulate for lists of <= 5 uses the same file with MaxLen replaced
SPECIFICATION Spec
CONSTANTS
  W = 5
  L4 = 1
  B4s = {0, 1}
  Fams = {"v4", "v6"}
  HostBits = FALSE
  MaxLen = 3
  KeepRule = "shorter"
  DoMask = TRUE
  GenOnly = FALSE
  EmitAll = FALSE
VIEW View
INVARIANTS TypeOK PipelineOK MappedSame SortedDisjoint
CHECK_DEADLOCK FALSE
