\* non-vacuity template: checks/stream_extra.py substitutes Deviation and the single invariant/property expected to fail
SPECIFICATION FairSpec
CONSTANTS
  Callers = {1, 2}
  IdVals = {0, 1}
  Kinds = {"ok", "garbage", "short", "status"}
  EnvCancel = TRUE
  EnvAbort = TRUE
  Eager = FALSE
  WithHist = FALSE
  Deviation = "SHARED_REQUEST"
INVARIANTS RequestIsOwnQuery
VIEW ViewNoHist
CHECK_DEADLOCK FALSE
