\* leg A non-vacuity: with the deviation switch Bug the named invariant must be violated
\* (checks/C06.py substitutes Bug / MaxMatch / Acts / INVARIANTS per pair)
SPECIFICATION Spec
CONSTANTS
  MaxSeq = 2
  MaxRules = 2
  MaxMatch = 1
  MKinds = {"T", "E"}
  Negs = {TRUE, FALSE}
  Acts = {"nop"}
  RejectCodes = {5}
  MaxMulti = 1
  MaxConc = 1
  Sched = "free"
  Bug = "neg_lost"
INVARIANTS ActionNeedsMatch
CHECK_DEADLOCK FALSE
