------------------------- MODULE UdpFallback_Trace -------------------------
(***************************************************************************)
(* Leg C for C17: one ExchangeContext of the real upstream created by      *)
(* upstream.NewUpstream("udp://127.x.y.z:port"), recorded by the harness   *)
(* UDP and TCP servers bound to that same address (one mutex, one sequence *)
(* counter), checked against UdpFallback.tla.                              *)
(*                                                                         *)
(*   Start(mode, tc, oth)  new exchange; flags of the reply the UDP server *)
(*                         is going to send, behaviour of the TCP server   *)
(*   UdpQuery(same)        UDP server read a datagram; same = its question *)
(*                         section and flags equal the caller's query      *)
(*   UdpReply              UDP server sent its reply (may get lost)        *)
(*   TcpAccept             TCP server accepted a connection                *)
(*   TcpQuery(same)        TCP server read one framed message              *)
(*   TcpReply / TcpClose   TCP server answered / hung up                   *)
(*   Result(kind, idok)    ExchangeContext returned: kind = udp (bytes of  *)
(*                         the UDP reply), tcp (bytes of the TCP reply),   *)
(*                         err, other; idok = the caller's ID was restored *)
(* Silent: Decide, refused TcpDial, TcpGiveUp.                             *)
(***************************************************************************)
EXTENDS UdpFallback, IOUtils

VARIABLE l

Trace == ndJsonDeserialize(IOEnv.TRACE_FILE)
tvars == <<vars, l>>
Ev == Trace[l]
IsEvent(e) == l <= Len(Trace) /\ Ev.ev = e /\ l' = l + 1

TraceInit == l = 1 /\ Init

Reset ==
    /\ IsEvent("Start")
    /\ tcpMode' = Ev.mode /\ tc' = Ev.tc /\ oth' = Ev.oth
    /\ pc' = "udp" /\ udpSent' = 0 /\ tcpConns' = 0 /\ tcpDials' = 0 /\ tcpSaw' = FALSE /\ result' = "none"

Logged ==
    \/ IsEvent("UdpQuery") /\ Ev.same /\ UdpSend
    \/ IsEvent("UdpReply") /\ (UdpReply \/ UdpReplyLost)
    \/ IsEvent("TcpAccept") /\ tcpMode # "refuses" /\ TcpDial
    \/ IsEvent("TcpQuery") /\ Ev.same /\ TcpQuery
    \/ IsEvent("TcpReply") /\ TcpAnswer
    \/ IsEvent("TcpClose") /\ TcpFail
    \* errors caused by the harness context ending are filtered out before validation, so an
    \* error must come from the TCP retry
    \/ IsEvent("Result") /\ pc = "done" /\ result = Ev.kind /\ Ev.idok /\ (Ev.kind = "err" => tcpDials >= 1)
         /\ UNCHANGED vars

Silent ==
    /\ l <= Len(Trace) /\ UNCHANGED l
    /\ \/ Decide
       \/ tcpMode = "refuses" /\ TcpDial
       \/ TcpGiveUp

TraceNext == (Reset \/ Logged \/ Silent) /\ C17Inv'
TraceSpec == TraceInit /\ [][TraceNext]_tvars

HWM == TLCSet(1, IF TLCGet(1) < l THEN l ELSE TLCGet(1))
HWMInit == TLCSet(1, 0)
ASSUME HWMInit
Accepted == PrintT(<<"HWM", TLCGet(1), Len(Trace)>>)
=============================================================================
