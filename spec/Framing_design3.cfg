\* leg A (thorough): three concurrent writers, every message length class, every chunking, every cut: C16 invariants + termination
SPECIFICATION FairSpec
CONSTANTS
  B = 4
  MIN = 1
  Writers = {1, 2, 3}
  Lens = {0, 1, 2, 3, 5, 16}
  MinAccepts = {TRUE, FALSE}
  MaxCut = 2
  SplitWrite = FALSE
  NoMaxCheck = FALSE
  NoMinCheck = FALSE
  ResumeFresh = FALSE
  NoReadFull = FALSE
  WithHist = FALSE
  Export = FALSE
INVARIANTS TypeOK C16Inv
PROPERTIES Terminates
CHECK_DEADLOCK FALSE
