\* non-vacuity
SPECIFICATION Spec
CONSTANTS
  NCalls = 2
  MaxDials = 2
  Policy = "code"
  MaxRetry = 2
  AttemptBound = 4
  RandomSelect = FALSE
  LockInOnce = FALSE
  Dev = {"ok_on_close"}
  MaxFaults = 1
  Kinds = {"eof"}
  OrderedStart = TRUE
  CancelCalls = {}
  EnvTClose = FALSE
  Coarse = TRUE
  Eager = FALSE
  WithHist = FALSE
VIEW ViewNoHist
INVARIANTS ErrOnFault

CHECK_DEADLOCK FALSE
