\* non-vacuity
SPECIFICATION Spec
CONSTANTS
  NCalls = 2
  MaxDials = 2
  QueueLimit = 2
  ConnCap = 1
  Policy = "code"
  MaxRetry = 2
  AttemptBound = 4
  Dev = {"no_cap_check"}
  NoWgWait = FALSE
  ExactScan = TRUE
  MaxFaults = 0
  Kinds = {"stale", "dead"}
  CancelCalls = {}
  EnvTClose = FALSE
  OrderedStart = TRUE
  Eager = FALSE
  WithHist = FALSE
VIEW ViewNoHist
INVARIANTS CapBound

CHECK_DEADLOCK FALSE
