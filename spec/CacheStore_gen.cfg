\* leg B generator: one thread, exact reading, capacity above the key count (nothing is ever evicted):
\* random op sequences with the results the specification requires
SPECIFICATION Spec
CONSTANTS
  Threads = {t1}
  Keys = {1, 2, 3}
  MinCap = 4
  Sizes = {0}
  OpTypes = {"get", "store", "del", "len", "flush", "range"}
  Exps = {"long", "short", "past"}
  MaxOps = 9
  MaxPerThread = 9
  Exact = TRUE
  Dev = "none"
  TraceMode = FALSE
  SkipBand = TRUE
  WithHist = TRUE
INVARIANTS Emit
CHECK_DEADLOCK FALSE
