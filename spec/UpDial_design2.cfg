\* leg A (quick): 2 concurrent calls on the tls kinds, no cancel, no late call; invariants
SPECIFICATION Spec
CONSTANTS
  Kinds = {"tls", "tls+pipeline"}
  Listens = {"accept", "refuse", "hang"}
  InitCalls = {1, 2}
  LateCall = 0
  MaxD = 2
  EnvCancel = FALSE
  WithHist = FALSE
  Eager = FALSE
  Deviation = "none"
INVARIANTS TypeOK DialEndsOnTimeout ExchangeEndsOnDialTimeout CloseCancelsDial PendingCallsEndOnClose LaterCallsFailImmediately ResultSound
VIEW ViewNoHist
CHECK_DEADLOCK FALSE
