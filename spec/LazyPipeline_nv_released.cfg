\* non-vacuity (liveness): Close leaves a dialled connection open
SPECIFICATION FairSpec
CONSTANTS
  NCalls = 2
  MaxDials = 2
  QueueLimit = 2
  ConnCap = 2
  Policy = "code"
  MaxRetry = 2
  AttemptBound = 4
  Dev = {"close_skips_dialed"}
  NoWgWait = FALSE
  ExactScan = TRUE
  MaxFaults = 0
  Kinds = {"stale", "dead"}
  CancelCalls = {}
  EnvTClose = TRUE
  OrderedStart = TRUE
  Eager = FALSE
  WithHist = FALSE
VIEW ViewNoHist
INVARIANTS TypeOK
PROPERTIES Released
CHECK_DEADLOCK FALSE
