\* leg A (thorough): prefixes with arbitrary host bits, ordered lists of <= 3
SPECIFICATION Spec
CONSTANTS
  W = 4
  L4 = 1
  B4s = {1}
  Fams = {"v4", "v6"}
  HostBits = TRUE
  MaxLen = 3
  KeepRule = "shorter"
  DoMask = TRUE
  GenOnly = FALSE
  EmitAll = FALSE
VIEW View
INVARIANTS TypeOK PipelineOK MappedSame SortedDisjoint
CHECK_DEADLOCK FALSE
