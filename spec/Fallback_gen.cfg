\* leg B generator: every complete schedule (both publication orders) with its expected result
SPECIFICATION Spec
CONSTANTS
  Orders = {"queue_first", "signal_first"}
  Standbys = {TRUE, FALSE}
  TimerMays = {TRUE, FALSE}
  LazyCaller = FALSE
  EagerCaller = TRUE
  EnvCancel = TRUE
  EnvDeadline = TRUE
  WithHist = TRUE
INVARIANTS Emit
CHECK_DEADLOCK FALSE
