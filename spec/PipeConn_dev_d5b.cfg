\* PipeConn_dev_d5b.cfg6
SPECIFICATION Spec
CONSTANTS
  Callers = {0, 1}
  M = 4
  MaxCqs = {2}
  MaxCalls = 1
  StartQids = {3}
  Datagrams = {FALSE}
  UNBUFFERED_HANDOFF = FALSE
  RANDOM_SELECT = FALSE
  DOUBLE_COUNT = TRUE
  DEV = {}
  MaxStray = 0
  MaxDup = 0
  MaxCancel = 0
  MaxFault = 0
  StrictClosed = FALSE
  GenFocus = "none"
  WithHist = FALSE
INVARIANTS NoSpuriousRefusal
VIEW ViewNoHist
CHECK_DEADLOCK FALSE
