\* leg A quick: 2 callers x 1 call, stream + datagram, limits 1 and 2, all env budgets 1 (design: D1/D2/D5 switches off)
SPECIFICATION FairSpec
CONSTANTS
  Callers = {0, 1}
  M = 4
  MaxCqs = {1, 2}
  MaxCalls = 1
  StartQids = {3}
  Datagrams = {TRUE, FALSE}
  UNBUFFERED_HANDOFF = FALSE
  RANDOM_SELECT = FALSE
  DOUBLE_COUNT = FALSE
  DEV = {}
  MaxStray = 1
  MaxDup = 1
  MaxCancel = 1
  MaxFault = 1
  WithHist = FALSE
INVARIANTS TypeOK OwnReply NoStrayDelivered NoLoss Limit ExactAccounting NoUnderflow NoSpuriousRefusal QuiescentFree
PROPERTIES ArrivedLeadsToDone
VIEW ViewNoHist
CHECK_DEADLOCK FALSE
