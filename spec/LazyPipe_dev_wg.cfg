\* non-vacuity of the early-callers-first ordering: wg.Done() before the re-reservation -> a late caller takes the slot and a
\* query queued while dialing is refused although limits are equal
SPECIFICATION Spec
CONSTANTS
  Callers = {0, 1, 2}
  Slots = {1, 2, 3}
  QLimits = {1, 2}
  CLimits = {1, 2}
  MaxCalls = 1
  MaxDialFail = 1
  DEAD_ADMITS = FALSE
  DONE_EARLY = TRUE
  DOUBLE_COUNT = FALSE
INVARIANTS NoRefusalIfEqual
CHECK_DEADLOCK FALSE
