SPECIFICATION TraceSpec
CONSTANTS
  Names = {"n1"}
  Types = {"t1"}
  Classes = {"c1"}
  Flags = {0}
  Kinds = {"std"}
  KeyFields <- AllKey
  Resps <- RespsOne
  LazyTTLs = {0}
  Ticks = {1}
  MaxNow = 0
  MaxOps = 0
  NxMax = 30
  SfMax = 5
  EmptyMax = 300
  StaleTTL = 5
  TTLMode = "stored"
  Admit = "rule"
  Dedup = TRUE
  RefreshOwner = "asked"
  Alias = "none"
  DumpFields <- AllDump
  Insts = {1, 2}
  OpKinds = {}
  MaxHandles = 0
  WithHist = FALSE
  Skew = 1
CONSTRAINT HWM
POSTCONDITION Accepted
CHECK_DEADLOCK FALSE
