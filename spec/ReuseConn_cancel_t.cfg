\* leg A thorough (C07): cancel + one fault, liveness
SPECIFICATION FairSpec
CONSTANTS
  NCalls = 2
  MaxDials = 2
  Policy = "code"
  MaxRetry = 2
  AttemptBound = 4
  RandomSelect = FALSE
  LockInOnce = FALSE
  Dev = {}
  MaxFaults = 1
  Kinds = {"silent"}
  OrderedStart = TRUE
  CancelCalls = {1}
  EnvTClose = FALSE
  Coarse = TRUE
  Eager = FALSE
  WithHist = FALSE
VIEW ViewNoHist
INVARIANTS TypeOK FailOnlyWhen AttemptsBounded NoLoss ErrOnFault ClosedRejects CloseWakesAll ArmedIsShortWhenOwed OneAtATime IdleSound NoSpuriousUnexpected NoLockCycle
PROPERTIES CallsEnd
CHECK_DEADLOCK FALSE
