\* leg C: traces of harness/drv_pipeconn (arm mode) against PipeConnArm.tla, ArmedIsShortWhenOwed conjoined to every step
SPECIFICATION TraceSpec
CONSTANTS
  Callers = {0, 1, 2, 3}
  MaxCalls = 1000000
  MaxCancel = 1000000
  DEV = {}
  WithHist = FALSE
CONSTRAINT HWM
POSTCONDITION Accepted
CHECK_DEADLOCK FALSE
