-------------------------- MODULE Bootstrap_Trace --------------------------
(***************************************************************************)
(* Leg C for Bootstrap.tla.  Events: New (fresh Bootstrap object: reset),  *)
(* CallStart(c), Query (the harness DNS server sees a query with a new id),*)
(* UpdateOk(addr, long) / UpdateFail (the harness answers the pending      *)
(* query with an address / without one), Tick (more than one retry interval*)
(* has certainly passed), MaybeTick (it may have), Cancel(c),              *)
(* Return(c, res, port_ok), End (everything cancelled and returned).       *)
(* Silent: Return(c), ReturnCtx(c), UpdateEnd.                             *)
(***************************************************************************)
EXTENDS Bootstrap, IOUtils

VARIABLES l, qseen
Trace == ndJsonDeserialize(IOEnv.TRACE_FILE)
tvars == <<vars, l, qseen>>
Ev == Trace[l]
IsEvent(e) == l <= Len(Trace) /\ Ev.ev = e /\ l' = l + 1

TraceInit == l = 1 /\ qseen = FALSE /\ Init

Reset ==
    /\ IsEvent("New") /\ qseen' = FALSE
    /\ now' = 1 /\ nextUpdate' = 0 /\ updating' = FALSE /\ upc' = "none"
    /\ ready' = FALSE /\ addr' = 0
    /\ cpc' = [c \in Callers |-> "idle"] /\ cres' = [c \in Callers |-> 0] /\ cctx' = [c \in Callers |-> FALSE]
    /\ nUpdates' = 0 /\ lastStart' = 0 /\ lastFailEnd' = 0 /\ hist' = <<>>

Logged ==
    \/ IsEvent("CallStart") /\ CallStart(Ev.c) /\ UNCHANGED qseen
    \/ IsEvent("Query") /\ upc = "query" /\ ~qseen /\ qseen' = TRUE /\ UNCHANGED vars
    \/ IsEvent("UpdateOk") /\ qseen /\ UpdateOk(Ev.addr, Ev.long) /\ qseen' = FALSE
    \/ IsEvent("UpdateFail") /\ qseen /\ UpdateFail /\ qseen' = FALSE
    \/ IsEvent("Tick") /\ Tick /\ UNCHANGED qseen
    \/ IsEvent("MaybeTick") /\ (Tick \/ UNCHANGED vars) /\ UNCHANGED qseen
    \/ IsEvent("Cancel") /\ Cancel(Ev.c) /\ UNCHANGED qseen
    \/ IsEvent("Return") /\ cpc[Ev.c] = "done" /\ cres[Ev.c] = Ev.res /\ Ev.port_ok /\ Again(Ev.c) /\ UNCHANGED qseen
    \/ IsEvent("End") /\ (\A c \in Callers : cpc[c] = "idle") /\ UNCHANGED <<vars, qseen>>

Silent == /\ l <= Len(Trace) /\ UNCHANGED <<l, qseen>>
          /\ \/ UpdateEnd
             \/ \E c \in Callers : Return(c) \/ ReturnCtx(c)

TraceNext == (Reset \/ Logged \/ Silent) /\ BSInv'
TraceSpec == TraceInit /\ [][TraceNext]_tvars

HWM == TLCSet(1, IF TLCGet(1) < l THEN l ELSE TLCGet(1))
ASSUME TLCSet(1, 0)
Accepted == PrintT(<<"HWM", TLCGet(1), Len(Trace)>>)
=============================================================================
