\* non-vacuity of CtxEnds: without the ctx arm of the final wait a silent server blocks the call forever
SPECIFICATION FairSpec
CONSTANTS
  Callers = {1, 2}
  IdVals = {1}
  Kinds = {}
  EnvCancel = TRUE
  EnvAbort = FALSE
  Eager = FALSE
  WithHist = FALSE
  Deviation = "NO_CTX"
INVARIANTS TypeOK
PROPERTIES CtxEnds
VIEW ViewNoHist
CHECK_DEADLOCK FALSE
