\* non-vacuity / D11: without the re-check a delayed idle re-arm overwrites the waiting deadline
SPECIFICATION Spec
CONSTANTS
  Callers = {0, 1}
  MaxCalls = 1
  MaxCancel = 1
  DEV = {"idle_overwrites"}
  WithHist = FALSE
INVARIANTS TypeOK ArmedIsShortWhenOwed
VIEW ViewNoHist
CHECK_DEADLOCK FALSE
