\* non-vacuity: later callers overtake early callers
SPECIFICATION Spec
CONSTANTS
  NCalls = 3
  MaxDials = 3
  QueueLimit = 2
  ConnCap = 2
  Policy = "code"
  MaxRetry = 2
  AttemptBound = 4
  Dev = {}
  NoWgWait = TRUE
  ExactScan = TRUE
  MaxFaults = 0
  Kinds = {"stale", "dead"}
  CancelCalls = {}
  EnvTClose = FALSE
  OrderedStart = TRUE
  Eager = FALSE
  WithHist = FALSE
VIEW ViewNoHist
INVARIANTS NoSpuriousRefusal

CHECK_DEADLOCK FALSE
