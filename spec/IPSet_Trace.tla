--------------------------- MODULE IPSet_Trace ---------------------------
(***************************************************************************)
(* Leg C for C13: runs of the real netlist.List recorded by drv_ipset as   *)
(* CONCRETE events (prefix / address strings) and mapped back into the     *)
(* abstract universe by checks/C13.py (inverse of the embedding, written   *)
(* independently of the Go concretizer).                                   *)
(*   New(b4)                 a fresh list (resets the state)               *)
(*   Append(fam, base, len)  a prefix inside the abstract universe loaded  *)
(*   AppendOutside           a prefix disjoint from the universe loaded    *)
(*                           (covers no abstract address: cov unchanged)   *)
(*   Sort                    List.Sort()                                   *)
(*   Contains(fam, v, r)     List.Contains(addr) returned r                *)
(* A Contains line is accepted iff r is the CONTRACT's answer (a \in cov); *)
(* the design invariants are conjoined to every step.                      *)
(***************************************************************************)
EXTENDS IPSet, IOUtils

VARIABLE l

Trace == ndJsonDeserialize(IOEnv.TRACE_FILE)

tvars == <<vars, l>>

Ev == Trace[l]
IsEvent(x) == l <= Len(Trace) /\ Ev.ev = x /\ l' = l + 1

TraceInit ==
    /\ l = 1
    /\ Init

Reset ==
    /\ IsEvent("New")
    /\ b4' = Ev.b4
    /\ inp' = <<>> /\ cov' = {} /\ e' = <<>> /\ sorted' = FALSE

Logged ==
    \/ IsEvent("Append") /\ DoAppend([fam |-> Ev.fam, base |-> Ev.base, len |-> Ev.len])
    \/ IsEvent("AppendOutside") /\ sorted' = FALSE /\ UNCHANGED <<b4, inp, cov, e>>
    \/ IsEvent("Sort") /\ Sort
    \/ IsEvent("Contains") /\ sorted /\ Ev.r = ([fam |-> Ev.fam, v |-> Ev.v] \in cov) /\ UNCHANGED vars

TraceNext == (Reset \/ Logged) /\ C13Inv'

TraceSpec == TraceInit /\ [][TraceNext]_tvars

\* high-water mark of the trace position (needs -workers 1)
HWM == TLCSet(1, IF TLCGet(1) < l THEN l ELSE TLCGet(1))
HWMInit == TLCSet(1, 0)
ASSUME HWMInit
Accepted == PrintT(<<"HWM", TLCGet(1), Len(Trace)>>)
=============================================================================
