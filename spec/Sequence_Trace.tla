------------------------- MODULE Sequence_Trace -------------------------
(***************************************************************************)
(* Leg C: runs of the real sequence plugin (programs built by              *)
(* sequence.NewSequence from rule text, harness matchers / actions /       *)
(* wrappers recording their invocations under one mutex) checked against   *)
(* Sequence.tla.                                                           *)
(*   Start(prog)                    a new call; prog as exported by leg B  *)
(*   L(tag, t, s, r, m, v)          a harness plugin logged entry          *)
(*                                  [t,s,r,m,v] while handling the query   *)
(*                                  copy `tag` (m matcher invoked+result,  *)
(*                                  a action invoked, ks/ke continuation   *)
(*                                  run start/end, post, fork, join)       *)
(*   Return(resp, err)              Exec returned                          *)
(*   LateReturn(tag, resp, err)     a kept continuation, run by the harness*)
(*                                  after Return, returned                 *)
(* Silent: every step of the interpreter that no harness plugin sees       *)
(* (built-in actions, end of sequence, frames popped, run finished).       *)
(* The C06 invariants are conjoined to every step.                         *)
(***************************************************************************)
EXTENDS Sequence, IOUtils

VARIABLE l

Trace == ndJsonDeserialize(IOEnv.TRACE_FILE)
tvars == <<vars, l>>
Ev == Trace[l]
IsEvent(e) == l <= Len(Trace) /\ Ev.ev = e /\ l' = l + 1

TraceInit == l = 1 /\ Init

Reset ==
    /\ IsEvent("Start")
    /\ prog' = Ev.prog
    /\ phase' = "exec" /\ bs' = MaxSeq + 1
    /\ runs' = (Root :> [NewRun(NoResp, <<>>) EXCEPT !.stack = <<Frame(1, 1, 1)>>])
    /\ reuseOK' = TRUE

AnyStep(tag) == Local(tag) \/ Fork(tag) \/ Join(tag)

Logged ==
    /\ IsEvent("L")
    /\ \E tag \in DOMAIN runs :
          /\ tag = Ev.tag
          /\ AnyStep(tag)
          /\ Len(runs'[tag].log) = Len(runs[tag].log) + 1
          /\ LET e == runs'[tag].log[Len(runs'[tag].log)]
             IN e.t = Ev.t /\ e.s = Ev.s /\ e.r = Ev.r /\ e.m = Ev.m /\ e.v = Ev.v

Silent ==
    /\ l <= Len(Trace) /\ UNCHANGED l
    /\ \/ \E tag \in DOMAIN runs : Local(tag) /\ runs'[tag].log = runs[tag].log
       \/ \E tag \in DOMAIN runs : \E j \in 1..9 : LateStart(tag, j)
       \/ Finish \/ FinishLate

\* a kept continuation, run later by the harness, returned
LateRet ==
    /\ IsEvent("LateReturn")
    /\ Ev.tag \in DOMAIN runs /\ runs[Ev.tag].st = "done"
    /\ runs[Ev.tag].resp = Ev.resp
    /\ LET e == runs[Ev.tag].err IN e.k = Ev.err.k /\ e.s = Ev.err.s /\ e.r = Ev.err.r /\ e.m = Ev.err.m
    /\ UNCHANGED vars

Ret ==
    /\ IsEvent("Return")
    /\ phase \in {"late", "done"}
    /\ runs[Root].resp = Ev.resp
    /\ LET e == runs[Root].err IN e.k = Ev.err.k /\ e.s = Ev.err.s /\ e.r = Ev.err.r /\ e.m = Ev.err.m
    /\ UNCHANGED vars

TraceNext == (Reset \/ Logged \/ Silent \/ Ret \/ LateRet) /\ C06Inv'

TraceSpec == TraceInit /\ [][TraceNext]_tvars

HWM == TLCSet(1, IF TLCGet(1) < l THEN l ELSE TLCGet(1))
HWMInit == TLCSet(1, 0)
ASSUME HWMInit
Accepted == PrintT(<<"HWM", TLCGet(1), Len(Trace)>>)
=============================================================================
