\* leg B generator: every address of the quantifier with its token rendering and Expected/MayReject
SPECIFICATION Spec
CONSTANTS
  Schemes = {"udp", "tcp", "tcp+pipeline", "tls", "tls+pipeline", "https", "h3", "quic", "doq"}
  Ports = {1, 53, 443, 853, 65535, 65589, 70000}
  TrimCut = 1
  DialPortRule = "url"
  PortCheck = TRUE
  Export = TRUE
INVARIANTS Emit
CHECK_DEADLOCK FALSE
