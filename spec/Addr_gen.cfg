\* leg B generator: every address of the quantifier with its token rendering and Expected/MayReject
SPECIFICATION Spec
CONSTANTS
  Schemes = {"udp", "tcp", "tcp+pipeline", "tls", "tls+pipeline", "https", "h3", "quic"}
  Ports = {1, 53, 443, 853, 5353, 65535}
  TrimCut = 1
  DialPortRule = "url"
  Export = TRUE
INVARIANTS Emit
CHECK_DEADLOCK FALSE
