\* non-vacuity: a port above 65535 truncated to 16 bit instead of refused must violate C18Inv
SPECIFICATION Spec
CONSTANTS
  Schemes = {"udp", "tcp", "tcp+pipeline", "tls", "tls+pipeline", "https", "h3", "quic", "doq"}
  Ports = {1, 53, 443, 853, 65535, 65589, 70000}
  TrimCut = 1
  DialPortRule = "url"
  PortCheck = FALSE
  Export = FALSE
INVARIANTS C18Inv
CHECK_DEADLOCK FALSE
