\* leg B generator (simulation): complete scenarios ending with Close + slack; system steps run before the environment moves
SPECIFICATION Spec
CONSTANTS
  Kinds = {"tcp", "tls", "tcp+pipeline", "tls+pipeline", "udp"}
  Listens = {"accept", "refuse", "hang"}
  InitCalls = {1, 2}
  LateCall = 3
  MaxD = 2
  EnvCancel = TRUE
  WithHist = TRUE
  Eager = TRUE
  Deviation = "none"
INVARIANTS Emit
CHECK_DEADLOCK FALSE
