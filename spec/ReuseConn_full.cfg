\* leg A thorough (C07/C08): everything together, safety
SPECIFICATION Spec
CONSTANTS
  NCalls = 2
  MaxDials = 2
  Policy = "code"
  MaxRetry = 2
  AttemptBound = 4
  RandomSelect = FALSE
  LockInOnce = FALSE
  Dev = {}
  MaxFaults = 2
  Kinds = {"eof", "silent"}
  OrderedStart = TRUE
  CancelCalls = {1}
  EnvTClose = TRUE
  Coarse = TRUE
  Eager = FALSE
  WithHist = FALSE
VIEW ViewNoHist
INVARIANTS TypeOK FailOnlyWhen AttemptsBounded NoLoss ErrOnFault ClosedRejects CloseWakesAll ArmedIsShortWhenOwed OneAtATime IdleSound NoSpuriousUnexpected NoLockCycle

CHECK_DEADLOCK FALSE
