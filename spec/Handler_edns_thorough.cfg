\* leg A (C15): EDNS-relevant kinds in any order, rich client / upstream OPTs
SPECIFICATION Spec
CONSTANTS
  Kinds = {"cache", "ttl", "ecs", "fwdopt", "up"}
  MaxLen = 4
  Mals = {"ok", "ok1x"}
  CSizes = {4096}
  COptSets <- COptsSome
  CVers = {1}
  WithNoOpt = TRUE
  UMsgs <- UMsgsB
  UOptSets <- UOptsSome
  Transports = {"udp"}
  Caches = {"empty", "own"}
  Dev = {}
  WithHist = FALSE
VIEW View
INVARIANTS TypeOK ReplyShape UpstreamSeesOneFreshOpt NoClientOptionLeak ReplyOptIffClientOpt DoMirrored NoUpstreamOptionLeak CacheHasNoOpt OptNeverDuplicatedOrAltered
CHECK_DEADLOCK FALSE
