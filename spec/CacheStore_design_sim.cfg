\* leg A (thorough, simulation): 3 threads x <= 3 calls over 3 keys, capacity 2, every operation type and expiry class
SPECIFICATION Spec
CONSTANTS
  Threads = {t1, t2, t3}
  Keys = {1, 2, 3}
  MinCap = 2
  Sizes = {0, 1, 3}
  OpTypes = {"get", "store", "del", "len", "flush", "range"}
  Exps = {"long", "short", "past"}
  MaxOps = 9
  MaxPerThread = 3
  Exact = FALSE
  Dev = "none"
  TraceMode = FALSE
  SkipBand = FALSE
  WithHist = FALSE
INVARIANTS TypeOK Bounded NoForeignValue NoExpiredValue NoStaleAfterOverwriteOrFlush RangeSound LenBounded
CHECK_DEADLOCK FALSE
