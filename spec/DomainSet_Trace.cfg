SPECIFICATION TraceSpec
CONSTANTS
  MaxName = 4
  MaxPat = 3
  MaxRePat = 2
  KwLen = 3
  MaxRules = 99
  Defs = {"domain", "full", "keyword"}
  Types = {"full", "domain", "keyword", "regexp", "none"}
  SuffixMode = "label"
  OrderName = "fdrk"
  KeepDeepest = TRUE
  EmitAll = FALSE
CONSTRAINT HWM
POSTCONDITION Accepted
CHECK_DEADLOCK FALSE
