\* leg B generator: complete behaviours (environment + boundary events)
SPECIFICATION Spec
CONSTANTS
  NCalls = 3
  MaxDials = 3
  QueueLimit = 2
  ConnCap = 1
  Policy = "code"
  MaxRetry = 2
  AttemptBound = 4
  Dev = {}
  NoWgWait = FALSE
  ExactScan = TRUE
  MaxFaults = 2
  Kinds = {"stale", "dead"}
  CancelCalls = {1, 2}
  EnvTClose = TRUE
  OrderedStart = TRUE
  Eager = FALSE
  WithHist = TRUE
INVARIANTS Emit
CHECK_DEADLOCK FALSE
