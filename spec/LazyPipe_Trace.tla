--------------------------- MODULE LazyPipe_Trace ---------------------------
(***************************************************************************)
(* Leg C for C09 part (ii): traces of harness/drv_pipeline (the REAL       *)
(* PipelineTransport + lazyDnsConn + TraditionalDnsConn over simnet conns  *)
(* and a gated dial function) checked against LazyPipe.tla.  Events:       *)
(*   reset{q,l}   Call{c}   Dial{k}   DialRet{k,ok}   ConnWrite{c,k}       *)
(*   ConnDie{k} (the harness made Read on connection k fail)               *)
(*   Deliver{c}   ExchangeEnd{c,r,e}  (r = reply | err; e = refused | dial *)
(*   | other)                                                              *)
(* Silent: Attach*, DialPublish, EarlyAdmit, EarlyRefuse, EarlyFail,       *)
(* Finish, Release.                                                        *)
(***************************************************************************)
EXTENDS LazyPipe, IOUtils, Json

VARIABLE l
Trace == ndJsonDeserialize(IOEnv.TRACE_FILE)
tvars == <<vars, l>>
Ev == Trace[l]
IsEvent(e) == l <= Len(Trace) /\ Ev.ev = e /\ l' = l + 1

TraceInit == l = 1 /\ Init

Reset ==
    /\ IsEvent("reset")
    /\ qlim' = Ev.q /\ clim' = Ev.l
    /\ cst' = [s \in Slots |-> "none"] /\ name' = [s \in Slots |-> 0]
    /\ early' = [s \in Slots |-> {}] /\ inuse' = [s \in Slots |-> {}]
    /\ pc' = [c \in Callers |-> "idle"] /\ at' = [c \in Callers |-> 0]
    /\ res' = [c \in Callers |-> "none"] /\ tries' = [c \in Callers |-> 0]
    /\ calls' = [c \in Callers |-> 0] /\ creator' = [c \in Callers |-> FALSE]
    /\ replied' = {} /\ ndialfail' = 0 /\ spurious' = FALSE

SlotOf(k) == CHOOSE s \in Slots : name[s] = k

Logged ==
    \/ IsEvent("Call") /\ Call(Ev.c)
    \/ IsEvent("Dial") /\ \E s \in Slots : DialStart(s, Ev.k)
    \/ IsEvent("DialRet") /\ (\E s \in Slots : name[s] = Ev.k) /\
         IF Ev.ok THEN DialOk(SlotOf(Ev.k)) ELSE DialFail(SlotOf(Ev.k))
    \/ IsEvent("ConnDie") /\ (\E s \in Slots : name[s] = Ev.k) /\ ConnDie(SlotOf(Ev.k))
    \/ IsEvent("ConnWrite") /\ Write(Ev.c) /\ name[at[Ev.c]] = Ev.k
    \/ IsEvent("Deliver") /\ Reply(Ev.c)
    \/ IsEvent("ExchangeEnd") /\ pc[Ev.c] = "done" /\ Return(Ev.c) /\
         IF Ev.r = "reply" THEN res[Ev.c] = "reply" ELSE res[Ev.c] = Ev.e

Silent ==
    /\ l <= Len(Trace) /\ UNCHANGED l
    /\ \/ \E c \in Callers : EarlyAdmit(c) \/ EarlyRefuse(c) \/ EarlyFail(c) \/ Finish(c) \/ Release(c) \/ DieRetry(c)
       \/ \E c \in Callers, s \in Slots : AttachEarly(c, s) \/ AttachReady(c, s) \/ AttachNew(c, s)
       \/ \E s \in Slots : DialPublish(s)

TraceNext == (Reset \/ Logged \/ Silent) /\ LazyInv'
TraceSpec == TraceInit /\ [][TraceNext]_tvars

HWM == TLCSet(1, IF TLCGet(1) < l THEN l ELSE TLCGet(1))
HWMInit == TLCSet(1, 0)
ASSUME HWMInit
Accepted == PrintT(<<"HWM", TLCGet(1), Len(Trace)>>)
=============================================================================
