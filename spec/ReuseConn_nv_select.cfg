\* non-vacuity D2: closeNotify arm may win over a delivered reply
SPECIFICATION Spec
CONSTANTS
  NCalls = 2
  MaxDials = 2
  Policy = "code"
  MaxRetry = 2
  AttemptBound = 4
  RandomSelect = TRUE
  LockInOnce = FALSE
  Dev = {}
  MaxFaults = 1
  Kinds = {"eof"}
  OrderedStart = TRUE
  CancelCalls = {}
  EnvTClose = FALSE
  Coarse = TRUE
  Eager = FALSE
  WithHist = FALSE
VIEW ViewNoHist
INVARIANTS NoLoss

CHECK_DEADLOCK FALSE
