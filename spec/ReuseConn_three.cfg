\* leg A thorough (C08): 3 calls, retries
SPECIFICATION Spec
CONSTANTS
  NCalls = 3
  MaxDials = 3
  Policy = "code"
  MaxRetry = 2
  AttemptBound = 4
  RandomSelect = FALSE
  LockInOnce = FALSE
  Dev = {}
  MaxFaults = 2
  Kinds = {"eof"}
  OrderedStart = TRUE
  CancelCalls = {}
  EnvTClose = FALSE
  Coarse = TRUE
  Eager = FALSE
  WithHist = FALSE
VIEW ViewNoHist
INVARIANTS TypeOK FailOnlyWhen AttemptsBounded NoLoss ErrOnFault ClosedRejects CloseWakesAll ArmedIsShortWhenOwed OneAtATime IdleSound NoLockCycle

CHECK_DEADLOCK FALSE
