\* non-vacuity template: checks/C03.py and C15.py substitute Dev and the single invariant that must fail
SPECIFICATION Spec
CONSTANTS
  Kinds = {"redirect", "cache", "ecs", "up", "local"}
  MaxLen = 3
  Mals = {"ok", "twoq"}
  CSizes = {512}
  COptSets <- COptsSome
  CVers = {0}
  WithNoOpt = TRUE
  UMsgs <- UMsgsB
  UOptSets <- UOptsSome
  Transports = {"udp"}
  Caches = {"empty", "own"}
  Dev = {"@DEV@"}
  WithHist = FALSE
VIEW View
INVARIANTS @INV@
CHECK_DEADLOCK FALSE
