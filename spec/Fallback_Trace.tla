------------------------- MODULE Fallback_Trace -------------------------
(***************************************************************************)
(* Leg C: traces recorded from the real fallback plugin (harness executables*)
(* as primary / secondary, verif schedule points in fallback.go) checked   *)
(* against Fallback.tla.                                                   *)
(*                                                                         *)
(* Logged events (one ndjson line each):                                   *)
(*   Start(standby, timerMay)         a new call (resets the state)        *)
(*   PrimFinish(o)  SecFinish(o)      the harness lets primary/secondary   *)
(*                                    return outcome o                     *)
(*   PrimSignalled PrimQueued SecQueued   confirmation that the statement  *)
(*                                    has been executed (point after it);  *)
(*                                    the statement itself is a silent step*)
(*   SecWaitWake(r) SecStandbyWake(r) select arm taken (point in the arm)  *)
(*   SecExecStart                     secondary.Exec invoked               *)
(*   Cancel                           harness cancelled the caller's ctx   *)
(*   Return(res)                      Exec returned (observed)             *)
(* "early": TRUE on an event means it was logged well before the threshold *)
(* could elapse, i.e. the timer had not fired yet.                         *)
(* Silent: PrimSignal PrimSend SecSend TimerFire DeadlineFire CallerRecv   *)
(* CallerCtx.  The C20 invariants are conjoined to every step, so a trace  *)
(* is accepted iff SOME behaviour of the spec explains it and satisfies    *)
(* C20 throughout.                                                         *)
(***************************************************************************)
EXTENDS Fallback, IOUtils

VARIABLE l

Trace == ndJsonDeserialize(IOEnv.TRACE_FILE)

tvars == <<vars, l>>

Ev == Trace[l]
IsEvent(e) == l <= Len(Trace) /\ Ev.ev = e /\ l' = l + 1
Early == ("early" \in DOMAIN Ev /\ Ev.early) => ~timerFired

TraceInit ==
    /\ l = 1
    /\ Init

\* a new call: everything back to the initial values given by the Start line
Reset ==
    /\ IsEvent("Start")
    /\ order' \in Orders
    /\ standby' = Ev.standby /\ timerMay' = Ev.timerMay
    /\ ppc' = "exec" /\ pout' = "na"
    /\ spc' = IF Ev.standby THEN "start" ELSE "wait"
    /\ sout' = "na" /\ primDone' = FALSE /\ primFailed' = FALSE /\ chan' = <<>>
    /\ timerFired' = FALSE /\ ddlFired' = FALSE /\ ctxDone' = FALSE
    /\ cpc' = "recv" /\ nrecv' = 0 /\ result' = "na"
    /\ timerAtPub' = FALSE /\ secStarted' = FALSE /\ ctxAtStart' = FALSE
    /\ hist' = <<>>

Logged ==
    \/ IsEvent("PrimFinish") /\ Early /\ PrimFinish(Ev.o)
    \/ IsEvent("SecFinish") /\ Early /\ SecFinish(Ev.o)
    \/ IsEvent("PrimSignalled") /\ Early /\ (primDone \/ primFailed) /\ UNCHANGED vars
    \/ IsEvent("PrimQueued") /\ Early /\ UNCHANGED vars
         /\ \/ EffOrder = "queue_first" /\ ppc \in {"half", "done"}
            \/ EffOrder = "signal_first" /\ ppc = "done"
    \/ IsEvent("SecQueued") /\ Early /\ spc = "end" /\ sout # "na" /\ UNCHANGED vars
    \/ IsEvent("SecWaitWake") /\ Early /\ SecWaitWake(Ev.r)
    \/ IsEvent("SecStandbyWake") /\ Early /\ SecStandbyWake(Ev.r)
    \/ IsEvent("SecExecStart") /\ Early /\ SecExecStart
    \/ IsEvent("Cancel") /\ Cancel
    \/ IsEvent("Return") /\ cpc = "done" /\ result = Ev.res /\ UNCHANGED vars

Silent ==
    /\ l <= Len(Trace)
    /\ UNCHANGED l
    /\ \/ PrimSignal \/ PrimSend \/ SecSend \/ TimerFire \/ DeadlineFire \/ CallerRecv \/ CallerCtx

TraceNext == (Reset \/ Logged \/ Silent) /\ C20Inv'

TraceSpec == TraceInit /\ [][TraceNext]_tvars

\* high-water mark of the trace position (needs -workers 1)
HWM == TLCSet(1, IF TLCGet(1) < l THEN l ELSE TLCGet(1))
HWMInit == TLCSet(1, 0)
ASSUME HWMInit
Accepted == PrintT(<<"HWM", TLCGet(1), Len(Trace)>>)
=============================================================================
