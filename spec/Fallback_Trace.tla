------------------------- MODULE Fallback_Trace -------------------------
(***************************************************************************)
(* Leg C: traces recorded from the real fallback plugin (harness executables*)
(* as primary / secondary, verif schedule points in fallback.go) checked   *)
(* against Fallback.tla.                                                   *)
(*                                                                         *)
(* Logged events (one ndjson line each):                                   *)
(*   Start(standby, timerMay)         a new call (resets the state)        *)
(*   PrimFinish(o)  SecFinish(o)      the harness lets primary/secondary   *)
(*                                    return outcome o                     *)
(*   PrimSignalled PrimQueued SecQueued   confirmation that the statement  *)
(*                                    has been executed (point after it);  *)
(*                                    the statement itself is a silent step*)
(*   SecWaitWake(r) SecStandbyWake(r) select arm taken (point in the arm)  *)
(*   SecExecStart                     secondary.Exec invoked               *)
(*   Cancel                           harness cancelled the caller's ctx   *)
(*   Return(res)                      Exec returned (observed)             *)
(* "early": TRUE on an event means it was logged well before the threshold *)
(* could elapse, i.e. the timer had not fired yet.  "pre"/"late": logged   *)
(* certainly before / certainly after the threshold (see Late below): the  *)
(* threshold is counted from the start of the call.                        *)
(* Silent: PrimSignal PrimSend SecSend TimerFire DeadlineFire CallerRecv   *)
(* CallerCtx.  The C20 invariants are conjoined to every step, so a trace  *)
(* is accepted iff SOME behaviour of the spec explains it and satisfies    *)
(* C20 throughout.                                                         *)
(***************************************************************************)
EXTENDS Fallback, IOUtils

VARIABLES l,
          urgent   \* trace-only: the secondary sits in a select it entered before the threshold
                   \* elapsed, so it must have left it once the threshold has certainly elapsed

Trace == ndJsonDeserialize(IOEnv.TRACE_FILE)

tvars == <<vars, l, urgent>>

Ev == Trace[l]
IsEvent(e) == l <= Len(Trace) /\ Ev.ev = e /\ l' = l + 1
Early == ("early" \in DOMAIN Ev /\ Ev.early) => ~timerFired
Flag(f) == f \in DOMAIN Ev /\ Ev[f]
\* "late": logged when threshold + slack has certainly elapsed since the call started (real time,
\* only claimed for runs whose secondary was never held before it created its timer).  By then the
\* timer has fired and a secondary that entered its select before the threshold has left it.
Late == Flag("late") => (timerFired /\ ~urgent)

TraceInit ==
    /\ l = 1 /\ urgent = FALSE
    /\ Init

\* a new call: everything back to the initial values given by the Start line
Reset ==
    /\ IsEvent("Start")
    /\ urgent' = ~Ev.standby     \* without always_standby the secondary waits in its first select from the start
    /\ order' \in Orders
    /\ standby' = Ev.standby /\ timerMay' = Ev.timerMay
    /\ ppc' = "exec" /\ pout' = "na"
    /\ spc' = IF Ev.standby THEN "start" ELSE "wait"
    /\ sout' = "na" /\ primDone' = FALSE /\ primFailed' = FALSE /\ chan' = <<>>
    /\ timerFired' = FALSE /\ ddlFired' = FALSE /\ ctxDone' = FALSE
    /\ cpc' = "recv" /\ nrecv' = 0 /\ result' = "na"
    /\ timerAtPub' = FALSE /\ secStarted' = FALSE /\ ctxAtStart' = FALSE
    /\ hist' = <<>>

Logged ==
    \/ IsEvent("PrimFinish") /\ Early /\ Late /\ PrimFinish(Ev.o) /\ UNCHANGED urgent
    \/ IsEvent("SecFinish") /\ Early /\ Late /\ SecFinish(Ev.o)
         /\ urgent' = (standby /\ Ev.o = "ans" /\ Flag("pre"))
    \/ IsEvent("PrimSignalled") /\ Early /\ Late /\ UNCHANGED <<vars, urgent>>
         /\ IF "k" \in DOMAIN Ev THEN (IF Ev.k = "done" THEN primDone ELSE primFailed)
                                 ELSE (primDone \/ primFailed)
    \/ IsEvent("PrimQueued") /\ Early /\ Late /\ UNCHANGED <<vars, urgent>>
         /\ \/ EffOrder = "queue_first" /\ ppc \in {"half", "done"}
            \/ EffOrder = "signal_first" /\ ppc = "done"
    \/ IsEvent("SecQueued") /\ Early /\ Late /\ spc = "end" /\ sout # "na" /\ UNCHANGED <<vars, urgent>>
    \/ IsEvent("SecWaitWake") /\ Early /\ Late /\ SecWaitWake(Ev.r) /\ urgent' = FALSE
    \/ IsEvent("SecStandbyWake") /\ Early /\ Late /\ SecStandbyWake(Ev.r) /\ urgent' = FALSE
    \/ IsEvent("SecExecStart") /\ Early /\ Late /\ SecExecStart /\ UNCHANGED urgent
    \/ IsEvent("Cancel") /\ Cancel /\ UNCHANGED urgent
    \* the harness saw no return within 3 s of cancelling the context of a caller that sits in its select while both
    \* branches are held: with ctxDone the caller's CallerCtx step is enabled and nothing else can run, so this event
    \* is never explained (the call must end when the caller's context ends)
    \/ IsEvent("CancelIgnored") /\ ~ctxDone /\ UNCHANGED <<vars, urgent>>
    \/ IsEvent("Return") /\ cpc = "done" /\ result = Ev.res /\ UNCHANGED <<vars, urgent>>

Silent ==
    /\ l <= Len(Trace)
    /\ UNCHANGED <<l, urgent>>
    /\ \/ PrimSignal \/ PrimSend \/ SecSend \/ TimerFire \/ DeadlineFire \/ CallerRecv \/ CallerCtx

TraceNext == (Reset \/ Logged \/ Silent) /\ C20Inv'

TraceSpec == TraceInit /\ [][TraceNext]_tvars

\* high-water mark of the trace position (needs -workers 1)
HWM == TLCSet(1, IF TLCGet(1) < l THEN l ELSE TLCGet(1))
HWMInit == TLCSet(1, 0)
ASSUME HWMInit
Accepted == PrintT(<<"HWM", TLCGet(1), Len(Trace)>>)
=============================================================================
