\* leg C: recorded histories (sequential histories, exact reading: leg B replays)
SPECIFICATION TraceSpec
CONSTANTS
  Threads = {1, 2, 3, 4}
  Keys = {1, 2, 3, 4, 5, 6, 7, 8, 9, 10, 11, 12}
  MinCap = 1024
  Sizes = {0}
  OpTypes = {}
  Exps = {}
  MaxOps = 0
  MaxPerThread = 0
  Exact = TRUE
  Dev = "none"
  TraceMode = TRUE
  SkipBand = FALSE
  WithHist = FALSE
CONSTRAINT HWM
POSTCONDITION Accepted
CHECK_DEADLOCK FALSE
