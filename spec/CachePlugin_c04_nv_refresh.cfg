\* static copy for readers; checks/C04.py generates this text at run time through cachelib.cfg(): run on module CachePlugin_MC
\* non-vacuity: a background refresh stores the answer to another question under the looked-up key -> NoSharing must be violated
SPECIFICATION Spec
CONSTANTS
  Names = {"n1", "n2"}
  Types = {"t1"}
  Classes = {"c1"}
  Flags = {0}
  Kinds = {"std"}
  KeyFields <- AllKey
  Resps <- RespsC04L
  LazyTTLs = {50}
  Ticks = {10}
  MaxNow = 30
  MaxOps = 5
  NxMax = 30
  SfMax = 5
  EmptyMax = 300
  StaleTTL = 5
  TTLMode = "stored"
  Admit = "rule"
  Dedup = TRUE
  RefreshOwner = "other"
  Alias = "none"
  DumpFields <- AllDump
  Insts = {1}
  OpKinds = {"exec", "tick", "refresh"}
  MaxHandles = 0
  WithHist = FALSE
VIEW ViewNoHist
INVARIANTS NoSharing
CHECK_DEADLOCK FALSE
