------------------------------ MODULE Framing ------------------------------
(***************************************************************************)
(* C16 - stream framing is exact in both directions.                       *)
(*                                                                         *)
(* pkg/dnsutils/net_io.go : WriteRawMsgToTCP, WriteMsgToTCP,               *)
(*                          ReadRawMsgFromTCP                              *)
(* pkg/pool/msg_buf.go    : PackTCPBuffer                                  *)
(* pkg/upstream/transport/utils.go : copyMsgWithLenHdr                     *)
(* pkg/server/tcp.go      : ServeTCP (one Write per reply)                 *)
(*                                                                         *)
(* Bytes are digits in base B (B = 4 in leg A; the same operators are      *)
(* evaluated at B = 256 for the outcome table and the trace spec).         *)
(* A frame = two header digits (big endian length) + that many digits.     *)
(*   WriteFrame(w)   writer w frames its message: refused when longer than *)
(*                   MAX = B*B-1, else ONE chunk hdr \o msg is appended to *)
(*                   the wire (a chunk = one Write call). Writers are      *)
(*                   concurrent (pipelined replies on one connection).     *)
(*   Close(c)        the stream ends; c trailing digits never arrive       *)
(*   ReadChunk(k)    the reader obtains k digits (any chunking): NeedHdr,  *)
(*                   NeedBody; a length < MIN is an error, = MIN is left   *)
(*                   open by the property (minAcc), > MIN is delivered     *)
(*   Deliver         a complete frame is handed over                       *)
(*   ReadEOF         end of stream: clean at a frame boundary, an error    *)
(*                   inside a frame                                        *)
(* Items of the input are integers: d >= 0 a literal digit, -n an opaque   *)
(* run of n body bytes (trace spec only: bodies of big frames).            *)
(*   ReadTimeout     a read fails inside a frame: the stream is lost        *)
(* Deviation switches (non-vacuity): SplitWrite, NoMaxCheck, NoMinCheck,   *)
(* NoReadFull, ResumeFresh.                                                *)
(***************************************************************************)
EXTENDS Integers, Sequences, FiniteSets, TLC, Json

CONSTANTS
    B,            \* digit base
    MIN,          \* a frame shorter than MIN digits is malformed (abstract 1 <-> 12 bytes)
    Writers,      \* set of writer ids (naturals)
    Lens,         \* message lengths a writer may choose
    MinAccepts,   \* subset of BOOLEAN: is a length of exactly MIN delivered? (outside the property)
    MaxCut,       \* Close may drop up to MaxCut trailing digits
    SplitWrite, NoMaxCheck, NoMinCheck, NoReadFull, ResumeFresh,    \* deviations
    WithHist, Export

VARIABLES
    wire,         \* sequence of chunks (one per Write call)
    wst,          \* writer state: "idle" | "half" (SplitWrite only) | "done" | "refused"
    wlen,         \* chosen length per writer
    written,      \* framed messages in wire order: [w, n]
    closed, dropped,
    minAcc,
    rd,           \* reader: [st, h, need, len, body, inbuf]
    pos,          \* digits taken from the stream so far
    delivered,    \* sequence of [len, body]
    outcome,      \* "run" | "err" | "eof"
    tmo,          \* a read error (deadline) struck inside a frame
    hist

vars == <<wire, wst, wlen, written, closed, dropped, minAcc, rd, pos, delivered, outcome, tmo, hist>>

MAX == B * B - 1
Hdr(n) == <<(n \div B) % B, n % B>>
Body(w, n) == [i \in 1..n |-> (w + i) % B]
HdrVal(h) == h[1] * B + h[2]

RECURSIVE Flat(_)
Flat(cs) == IF cs = <<>> THEN <<>> ELSE Head(cs) \o Flat(Tail(cs))

Stream == LET f == Flat(wire) IN SubSeq(f, 1, Len(f) - dropped)

(***************************************************************************)
(* The reader as a function on items (shared with Framing_Trace)           *)
(***************************************************************************)
Fresh == [st |-> "hdr", h |-> <<>>, need |-> 0, len |-> 0, body |-> <<>>, inbuf |-> <<>>]

\* consume the first item of r.inbuf; macc = is a length of exactly MIN accepted
Step(r, macc) ==
    LET x == Head(r.inbuf) rest == Tail(r.inbuf) IN
    IF r.st = "hdr" THEN
        IF x < 0 THEN [r EXCEPT !.st = "bad"]
        ELSE LET h2 == Append(r.h, x) IN
             IF Len(h2) < 2 THEN [r EXCEPT !.h = h2, !.inbuf = rest]
             ELSE LET L == HdrVal(h2) IN
                  IF ~NoMinCheck /\ (L < MIN \/ (L = MIN /\ ~macc))
                  THEN [r EXCEPT !.st = "err", !.h = h2, !.inbuf = rest]
                  ELSE [st |-> IF L = 0 THEN "full" ELSE "body", h |-> h2, need |-> L, len |-> L,
                        body |-> <<>>, inbuf |-> rest]
    ELSE \* "body"
        IF x >= 0 THEN
            LET r2 == [r EXCEPT !.need = r.need - 1, !.body = Append(r.body, x), !.inbuf = rest] IN
            IF r2.need = 0 THEN [r2 EXCEPT !.st = "full"] ELSE r2
        ELSE LET n == -x IN
            IF n <= r.need
            THEN LET r2 == [r EXCEPT !.need = r.need - n, !.inbuf = rest] IN
                 IF r2.need = 0 THEN [r2 EXCEPT !.st = "full"] ELSE r2
            ELSE [r EXCEPT !.need = 0, !.st = "full", !.inbuf = <<-(n - r.need)>> \o rest]

RECURSIVE Run(_, _)
Run(r, macc) == IF r.st \in {"hdr", "body"} /\ r.inbuf # <<>> THEN Run(Step(r, macc), macc) ELSE r

Feed(r, items, macc) == Run([r EXCEPT !.inbuf = r.inbuf \o items], macc)

\* after a delivery the reader starts the next frame with what it already holds
AfterDeliver(r, macc) == Run([Fresh EXCEPT !.inbuf = r.inbuf], macc)

(***************************************************************************)
(* State machine                                                           *)
(***************************************************************************)
H(e) == hist' = IF WithHist THEN Append(hist, e) ELSE hist

Init ==
    /\ wire = <<>> /\ wst = [w \in Writers |-> "idle"] /\ wlen \in [Writers -> Lens]
    /\ written = <<>> /\ closed = FALSE /\ dropped = 0 /\ minAcc \in MinAccepts
    /\ rd = Fresh /\ pos = 0 /\ delivered = <<>> /\ outcome = "run" /\ tmo = FALSE /\ hist = <<>>

WriteFrame(w) ==
    /\ wst[w] = "idle" /\ ~closed
    /\ LET n == wlen[w] IN
       IF n > MAX /\ ~NoMaxCheck
       THEN /\ wst' = [wst EXCEPT ![w] = "refused"] /\ H([a |-> "W", w |-> w, n |-> n, ok |-> FALSE])
            /\ UNCHANGED <<wire, written>>
       ELSE IF SplitWrite
       THEN /\ wire' = Append(wire, Hdr(n)) /\ wst' = [wst EXCEPT ![w] = "half"]
            /\ H([a |-> "W", w |-> w, n |-> n, ok |-> TRUE]) /\ UNCHANGED written
       ELSE /\ wire' = Append(wire, Hdr(n) \o Body(w, n)) /\ wst' = [wst EXCEPT ![w] = "done"]
            /\ written' = Append(written, [w |-> w, n |-> n])
            /\ H([a |-> "W", w |-> w, n |-> n, ok |-> TRUE])
    /\ UNCHANGED <<wlen, closed, dropped, minAcc, rd, pos, delivered, outcome, tmo>>

WriteRest(w) ==
    /\ wst[w] = "half" /\ ~closed
    /\ wire' = Append(wire, Body(w, wlen[w])) /\ wst' = [wst EXCEPT ![w] = "done"]
    /\ written' = Append(written, [w |-> w, n |-> wlen[w]])
    /\ UNCHANGED <<wlen, closed, dropped, minAcc, rd, pos, delivered, outcome, tmo, hist>>

Close(c) ==
    /\ ~closed /\ \A w \in Writers : wst[w] # "half"
    /\ c <= Len(Flat(wire)) - pos
    /\ closed' = TRUE /\ dropped' = c
    /\ H([a |-> "C", cut |-> c])
    /\ UNCHANGED <<wire, wst, wlen, written, minAcc, rd, pos, delivered, outcome, tmo>>

Avail == Len(Stream) - pos

\* the code reads with io.ReadFull into exactly sized buffers: never more than it needs
Want == IF rd.st = "hdr" THEN 2 - Len(rd.h) ELSE rd.need

ReadChunk(k) ==
    /\ outcome = "run" /\ rd.st \in {"hdr", "body"} /\ k >= 1 /\ k <= Avail /\ k <= Want
    /\ LET items == SubSeq(Stream, pos + 1, pos + k)
           r2 == Feed(rd, items, minAcc) IN
       /\ pos' = pos + k
       /\ IF NoReadFull /\ r2.st = "body"
          THEN rd' = [r2 EXCEPT !.st = "full", !.body = r2.body \o [i \in 1..r2.need |-> 0], !.need = 0]
          ELSE rd' = r2
       /\ outcome' = IF r2.st = "err" THEN "err" ELSE outcome
    /\ H([a |-> "R", k |-> k])
    /\ UNCHANGED <<wire, wst, wlen, written, closed, dropped, minAcc, delivered, tmo>>

Deliver ==
    /\ outcome = "run" /\ rd.st = "full"
    /\ delivered' = Append(delivered, [len |-> rd.len, body |-> rd.body])
    /\ rd' = AfterDeliver(rd, minAcc)
    /\ H([a |-> "D", len |-> rd.len])
    /\ UNCHANGED <<wire, wst, wlen, written, closed, dropped, minAcc, pos, outcome, tmo>>

ReadEOF ==
    /\ outcome = "run" /\ closed /\ Avail = 0 /\ rd.st \in {"hdr", "body"}
    /\ outcome' = IF rd.st = "hdr" /\ rd.h = <<>> THEN "eof" ELSE "err"
    /\ UNCHANGED <<wire, wst, wlen, written, closed, dropped, minAcc, rd, pos, delivered, tmo, hist>>

\* A read fails (deadline) while the reader is inside a frame - part of the header or of the body
\* is already consumed. The reader is not resumable: the stream is lost, an error is the only
\* outcome (conn_traditional.go / reuse.go readLoop close the connection on any read error).
\* Deviation ResumeFresh: the caller just calls the reader again, which starts a NEW frame in the
\* middle of the old one.
MidFrame(r) == r.st = "body" \/ (r.st = "hdr" /\ r.h # <<>>)
ReadTimeout ==
    /\ outcome = "run" /\ MidFrame(rd) /\ ~tmo
    /\ IF ResumeFresh
       THEN rd' = Fresh /\ UNCHANGED outcome
       ELSE outcome' = "err" /\ UNCHANGED rd
    /\ tmo' = TRUE
    /\ H([a |-> "T"])
    /\ UNCHANGED <<wire, wst, wlen, written, closed, dropped, minAcc, pos, delivered>>

Next ==
    \/ ReadTimeout
    \/ \E w \in Writers : WriteFrame(w) \/ WriteRest(w)
    \/ \E c \in 0..MaxCut : Close(c)
    \/ \E k \in 1..(MAX + 2) : ReadChunk(k)
    \/ Deliver \/ ReadEOF

Spec == Init /\ [][Next]_vars
FairSpec == Spec /\ WF_vars(Next)

(***************************************************************************)
(* C16                                                                     *)
(***************************************************************************)
TypeOK ==
    /\ rd.st \in {"hdr", "body", "full", "err"}
    /\ outcome \in {"run", "err", "eof"}
    /\ pos \in 0..Len(Flat(wire))

\* delivered frames = prefix of the written messages, each unchanged, buffer length = announced length
RoundTrip ==
    \A i \in 1..Len(delivered) :
        /\ i <= Len(written)
        /\ delivered[i].len = written[i].n
        /\ Len(delivered[i].body) = delivered[i].len
        /\ delivered[i].body = Body(written[i].w, written[i].n)

\* messages longer than MAX are refused, never framed
OverMaxRefused == \A w \in Writers : (wlen[w] > MAX /\ wst[w] # "idle") => wst[w] = "refused"

\* every Write call carries exactly one whole frame, for any number of concurrent writers
WholeFrameLen(n, h) == n >= 2 /\ Len(h) >= 2 /\ n = 2 + HdrVal(h)
WholeFrame(c) == WholeFrameLen(Len(c), c)
OneWriteOneFrame == \A i \in 1..Len(wire) : WholeFrame(wire[i])

\* a short length, a short read or EOF inside a frame is an error: nothing is delivered from it
MalformedIsError ==
    /\ rd.st # "bad"
    /\ \A i \in 1..Len(delivered) : delivered[i].len >= MIN /\ (delivered[i].len = MIN => minAcc)
    /\ (outcome = "eof") => /\ closed /\ pos = Len(Stream) /\ rd.st = "hdr" /\ rd.h = <<>>
                            /\ (dropped = 0 => Len(delivered) = Len(written))
    /\ (outcome = "err") => \/ tmo /\ MidFrame(rd)
                            \/ rd.st = "err" /\ Len(rd.h) = 2 /\ HdrVal(rd.h) <= MIN
                            \/ closed /\ pos = Len(Stream) /\ (rd.h # <<>> \/ rd.st = "body")

C16Inv == RoundTrip /\ OverMaxRefused /\ OneWriteOneFrame /\ MalformedIsError

\* once the stream is closed the reader ends
Ends == <>(closed => outcome # "run")
Terminates == [](closed => <>(outcome # "run"))

(***************************************************************************)
(* Outcome table for every length (evaluated by TLC at B = 256)            *)
(***************************************************************************)
\* "refused": the writer must refuse; "short": framed, the reader must report an error;
\* "open": framed, the property says nothing about the reader; "ok": framed and delivered unchanged
Class(n) == IF n > MAX THEN "refused" ELSE IF n < MIN THEN "short" ELSE IF n = MIN THEN "open" ELSE "ok"
Table(hi) ==
    LET starts == {n \in 0..hi : n = 0 \/ Class(n) # Class(n - 1)}
        ends   == {n \in 0..hi : n = hi \/ Class(n + 1) # Class(n)}
        minGE(S, s) == CHOOSE e \in S : e >= s /\ \A f \in S : f >= s => e <= f
    IN {[from |-> s, to |-> minGE(ends, s), class |-> Class(s)] : s \in starts}
EmitTable == Export => PrintT(<<"BEH", ToJson([table |-> Table(MAX + 2), max |-> MAX, min |-> MIN])>>)

Done == outcome # "run" /\ closed
Emit == (Export /\ Done) =>
    PrintT(<<"BEH", ToJson([steps |-> hist, outcome |-> outcome, minAcc |-> minAcc,
                            delivered |-> [i \in 1..Len(delivered) |-> delivered[i].len]])>>)
=============================================================================
