\* non-vacuity: dial_addr without port falling back to the scheme default although the URL names a port (D12)
SPECIFICATION Spec
CONSTANTS
  Schemes = {"udp", "tcp", "tcp+pipeline", "tls", "tls+pipeline", "https", "h3", "quic"}
  Ports = {1, 53, 443, 853, 5353, 65535}
  TrimCut = 1
  DialPortRule = "default"
  Export = FALSE
INVARIANTS C18Inv
CHECK_DEADLOCK FALSE
