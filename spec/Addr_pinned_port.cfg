\* non-vacuity: dial_addr without port falling back to the scheme default although the URL names a port (D12)
SPECIFICATION Spec
CONSTANTS
  Schemes = {"udp", "tcp", "tcp+pipeline", "tls", "tls+pipeline", "https", "h3", "quic", "doq"}
  Ports = {1, 53, 443, 853, 65535, 65589, 70000}
  TrimCut = 1
  DialPortRule = "default"
  PortCheck = TRUE
  Export = FALSE
INVARIANTS C18Inv
CHECK_DEADLOCK FALSE
