\* non-vacuity: attempts beyond the (lowered) bound
SPECIFICATION Spec
CONSTANTS
  NCalls = 2
  MaxDials = 2
  QueueLimit = 2
  ConnCap = 2
  Policy = "code"
  MaxRetry = 2
  AttemptBound = 1
  Dev = {}
  NoWgWait = FALSE
  ExactScan = TRUE
  MaxFaults = 1
  Kinds = {"stale", "dead"}
  CancelCalls = {}
  EnvTClose = FALSE
  OrderedStart = TRUE
  Eager = FALSE
  WithHist = FALSE
VIEW ViewNoHist
INVARIANTS AttemptsBounded

CHECK_DEADLOCK FALSE
