\* leg A: prefixes with arbitrary host bits, ordered lists of <= 2 (quick) 
SPECIFICATION Spec
CONSTANTS
  W = 4
  L4 = 1
  B4s = {0, 1}
  Fams = {"v4", "v6"}
  HostBits = TRUE
  MaxLen = 2
  KeepRule = "shorter"
  DoMask = TRUE
  GenOnly = FALSE
  EmitAll = FALSE
VIEW View
INVARIANTS TypeOK PipelineOK MappedSame SortedDisjoint
CHECK_DEADLOCK FALSE
