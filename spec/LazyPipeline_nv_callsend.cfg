\* non-vacuity (liveness): early callers are not woken when the dial fails
SPECIFICATION FairSpec
CONSTANTS
  NCalls = 2
  MaxDials = 2
  QueueLimit = 2
  ConnCap = 2
  Policy = "code"
  MaxRetry = 2
  AttemptBound = 4
  Dev = {"no_dial_wake"}
  NoWgWait = FALSE
  ExactScan = TRUE
  MaxFaults = 0
  Kinds = {"stale", "dead"}
  CancelCalls = {}
  EnvTClose = FALSE
  OrderedStart = TRUE
  Eager = FALSE
  WithHist = FALSE
VIEW ViewNoHist
INVARIANTS TypeOK
PROPERTIES CallsEnd
CHECK_DEADLOCK FALSE
