\* leg B generator (C03): every query shape x client OPT x transport, exhaustive (chains of length <= 1)
SPECIFICATION Spec
CONSTANTS
  Kinds = {"up"}
  MaxLen = 1
  Mals = {"ok", "ok1x", "qr", "noq", "twoq", "ans", "ns", "extra2", "opt2"}
  CSizes = {512}
  COptSets <- NoOptions
  CVers = {0}
  WithNoOpt = TRUE
  UMsgs <- UMsgsB
  UOptSets <- UOptsNone
  Transports = {"udp", "tcp"}
  Caches = {"empty"}
  Dev = {}
  WithHist = TRUE
INVARIANTS Emit
CHECK_DEADLOCK FALSE
