SPECIFICATION TraceSpec
CONSTANTS
  MaxSeq = 3
  MaxRules = 3
  MaxMatch = 2
  MKinds = {"T", "F", "E"}
  Negs = {TRUE, FALSE}
  Acts = {}
  RejectCodes = {5}
  MaxMulti = 0
  MaxConc = 0
  Sched = "free"
  Bug = "none"
CONSTRAINT HWM
POSTCONDITION Accepted
CHECK_DEADLOCK FALSE
