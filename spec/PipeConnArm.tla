---------------------------- MODULE PipeConnArm ----------------------------
(***************************************************************************)
(* pkg/upstream/transport/conn_traditional.go — the C07 view of            *)
(* TraditionalDnsConn: which read deadline is armed while a query is owed  *)
(* an answer, and that a silent server ends every call after the short     *)
(* waiting-reply timeout (not after the idle timeout).  Ids, limits and    *)
(* the hand-off are in PipeConn.tla; here a caller is                      *)
(*   Start      the query is registered and handed to c.Write              *)
(*   WriteRet   c.Write returned                                           *)
(*   Cas        waitingResp.CompareAndSwap(false, true)                    *)
(*   ArmW       ... succeeded: SetReadDeadline(now + waitingReplyTimeout)  *)
(*   TakeReply / SeeCtx / SeeClose, Return                                 *)
(* and the reader                                                          *)
(*   ArmIdle    SetReadDeadline(now + idleTimeout) at the top of readLoop  *)
(*   ReCheck    design: afterwards waitingResp is read again ...           *)
(*   ReArm      ... and if it is set the waiting deadline is re-armed      *)
(*   ReadMsg    a message was read (owed := FALSE)                         *)
(*   Dispatch   waitingResp.Store(false) + hand-off to the matching waiter *)
(*   Fire       the armed deadline passes (virtual time: only the short    *)
(*              waiting deadline can pass within the horizon); the reader  *)
(*              closes the connection                                      *)
(* `owed`: some query was written after the last successful read.  The     *)
(* read counts from the instant the reader has taken note of it (Dispatch: *)
(* waitingResp.Store(false)); a query written in the few instructions      *)
(* between Read returning and that store belongs to the unclaimed case     *)
(* "the server answered something and then went silent".                   *)
(* Deviations (DEV):                                                       *)
(*   "idle_overwrites"        pinned code (D11): no ReCheck — (a) a delayed*)
(*                            ArmIdle overwrites a concurrent ArmW; (b) a  *)
(*                            reply dispatched before its caller's Cas     *)
(*                            leaves waitingResp set for ever, later       *)
(*                            queries never arm the waiting deadline       *)
(*   "no_clear_on_unmatched"  waitingResp is not cleared when the message  *)
(*                            read matches no waiter (seeded C07-1)        *)
(*                            — harmful only together with the previous   *)
(*                            one: the design's re-check masks it          *)
(***************************************************************************)
EXTENDS Integers, FiniteSets, Sequences, TLC, Json

CONSTANTS Callers, MaxCalls, MaxCancel, DEV, WithHist

VARIABLES pc, gen, ctxDone, slot, res,
          wire,      \* sends the server may still answer: <<c, g>>
          net,       \* replies in flight
          rd,        \* reader: arm | recheck | rearm | read | hold(c,g) | dead
          wresp, armed, owed, closed, ncancel, hist

vars == <<pc, gen, ctxDone, slot, res, wire, net, rd, wresp, armed, owed, closed, ncancel, hist>>

Rd(s) == [k |-> s]
Hold(c, g) == [k |-> "hold", c |-> c, g |-> g]
H(e) == hist' = IF WithHist THEN Append(hist, e) ELSE hist

Busy == {"inwrite", "deciding", "armcall", "waiting"}

Init ==
    /\ pc = [c \in Callers |-> "idle"] /\ gen = [c \in Callers |-> 0]
    /\ ctxDone = [c \in Callers |-> FALSE] /\ slot = [c \in Callers |-> FALSE]
    /\ res = [c \in Callers |-> "none"]
    /\ wire = {} /\ net = {} /\ rd = Rd("arm")
    /\ wresp = FALSE /\ armed = "none" /\ owed = FALSE /\ closed = FALSE /\ ncancel = 0
    /\ hist = << >>

Start(c) ==
    /\ pc[c] = "idle" /\ gen[c] < MaxCalls /\ ~closed
    /\ pc' = [pc EXCEPT ![c] = "inwrite"]
    /\ wire' = wire \cup {<<c, gen[c]>>} /\ owed' = TRUE
    /\ H([a |-> "Start", c |-> c, g |-> gen[c]])
    /\ UNCHANGED <<gen, ctxDone, slot, res, net, rd, wresp, armed, closed, ncancel>>

WriteRet(c) ==
    /\ pc[c] = "inwrite" /\ pc' = [pc EXCEPT ![c] = "deciding"]
    /\ H([a |-> "WriteRet", c |-> c])
    /\ UNCHANGED <<gen, ctxDone, slot, res, wire, net, rd, wresp, armed, owed, closed, ncancel>>

Cas(c) ==
    /\ pc[c] = "deciding"
    /\ IF wresp THEN pc' = [pc EXCEPT ![c] = "waiting"] /\ UNCHANGED wresp
                ELSE pc' = [pc EXCEPT ![c] = "armcall"] /\ wresp' = TRUE
    /\ UNCHANGED <<gen, ctxDone, slot, res, wire, net, rd, armed, owed, closed, ncancel, hist>>

ArmW(c) ==
    /\ pc[c] = "armcall" /\ pc' = [pc EXCEPT ![c] = "waiting"] /\ armed' = "waiting"
    /\ H([a |-> "SrdW"])
    /\ UNCHANGED <<gen, ctxDone, slot, res, wire, net, rd, wresp, owed, closed, ncancel>>

Finish(c, r) ==
    /\ pc' = [pc EXCEPT ![c] = "done"] /\ res' = [res EXCEPT ![c] = r]
    /\ UNCHANGED <<gen, ctxDone, slot, wire, net, rd, wresp, armed, owed, closed, ncancel, hist>>

TakeReply(c) == pc[c] = "waiting" /\ slot[c] /\ Finish(c, "reply")
SeeCtx(c) == pc[c] = "waiting" /\ ctxDone[c] /\ Finish(c, "err")
SeeClose(c) == pc[c] = "waiting" /\ closed /\ ~slot[c] /\ Finish(c, "err")

Cancel(c) ==
    /\ pc[c] \in Busy /\ ~ctxDone[c] /\ ncancel < MaxCancel
    /\ ctxDone' = [ctxDone EXCEPT ![c] = TRUE] /\ ncancel' = ncancel + 1
    /\ H([a |-> "Cancel", c |-> c])
    /\ UNCHANGED <<pc, gen, slot, res, wire, net, rd, wresp, armed, owed, closed>>

Return(c) ==
    /\ pc[c] = "done"
    /\ H([a |-> "Return", c |-> c, g |-> gen[c], r |-> res[c]])
    /\ pc' = [pc EXCEPT ![c] = "idle"] /\ gen' = [gen EXCEPT ![c] = @ + 1]
    /\ slot' = [slot EXCEPT ![c] = FALSE] /\ ctxDone' = [ctxDone EXCEPT ![c] = FALSE]
    /\ res' = [res EXCEPT ![c] = "none"]
    /\ UNCHANGED <<wire, net, rd, wresp, armed, owed, closed, ncancel>>

------------------------------------------------------------------------------
ArmIdle ==
    /\ rd.k = "arm" /\ ~closed /\ rd' = Rd("recheck") /\ armed' = "idle"
    /\ H([a |-> "SrdI"])
    /\ UNCHANGED <<pc, gen, ctxDone, slot, res, wire, net, wresp, owed, closed, ncancel>>

ReCheck ==
    /\ rd.k = "recheck"
    /\ rd' = IF wresp /\ "idle_overwrites" \notin DEV THEN Rd("rearm") ELSE Rd("read")
    /\ UNCHANGED <<pc, gen, ctxDone, slot, res, wire, net, wresp, armed, owed, closed, ncancel, hist>>

ReArm ==
    /\ rd.k = "rearm" /\ rd' = Rd("read") /\ armed' = "waiting"
    /\ H([a |-> "SrdW"])
    /\ UNCHANGED <<pc, gen, ctxDone, slot, res, wire, net, wresp, owed, closed, ncancel>>

ServerReply(s) ==
    /\ s \in wire /\ ~closed /\ wire' = wire \ {s} /\ net' = net \cup {s}
    /\ UNCHANGED <<pc, gen, ctxDone, slot, res, rd, wresp, armed, owed, closed, ncancel, hist>>

ReadMsg(s) ==
    /\ rd.k = "read" /\ ~closed /\ s \in net /\ net' = net \ {s}
    /\ rd' = Hold(s[1], s[2])
    /\ H([a |-> "ReadMsg", c |-> s[1], g |-> s[2]])
    /\ UNCHANGED <<pc, gen, ctxDone, slot, res, wire, wresp, armed, owed, closed, ncancel>>

Matched == rd.k = "hold" /\ gen[rd.c] = rd.g /\ pc[rd.c] \in Busy

Dispatch ==
    /\ rd.k = "hold"
    /\ slot' = IF Matched THEN [slot EXCEPT ![rd.c] = TRUE] ELSE slot
    /\ wresp' = IF Matched \/ "no_clear_on_unmatched" \notin DEV THEN FALSE ELSE wresp
    /\ rd' = Rd("arm") /\ owed' = FALSE
    /\ H([a |-> "Dispatch"])
    /\ UNCHANGED <<pc, gen, ctxDone, res, wire, net, armed, closed, ncancel>>

\* the horizon (30 s of silence) is longer than the waiting-reply timeout and shorter than the idle timeout
Fire ==
    /\ rd.k = "read" /\ armed = "waiting" /\ ~closed
    /\ rd' = Rd("dead") /\ closed' = TRUE
    /\ H([a |-> "Timeout"])
    /\ UNCHANGED <<pc, gen, ctxDone, slot, res, wire, net, wresp, armed, owed, ncancel>>

CallerStep(c) == WriteRet(c) \/ Cas(c) \/ ArmW(c) \/ TakeReply(c) \/ SeeCtx(c) \/ SeeClose(c) \/ Return(c)
ReaderStep == ArmIdle \/ ReCheck \/ ReArm \/ Dispatch

Next ==
    \/ \E c \in Callers : Start(c) \/ CallerStep(c) \/ Cancel(c)
    \/ ReaderStep \/ Fire
    \/ \E s \in wire : ServerReply(s)
    \/ \E s \in net : ReadMsg(s)

Spec == Init /\ [][Next]_vars
\* the server may stay silent for ever: no fairness for ServerReply / ReadMsg / Cancel / Start
FairSpec == Spec /\ \A c \in Callers : WF_vars(CallerStep(c))
                 /\ WF_vars(ReaderStep) /\ WF_vars(Fire)

------------------------------------------------------------------------------
\* C07
Settled == rd.k = "read" /\ \A c \in Callers : pc[c] \notin {"inwrite", "deciding", "armcall"}
ArmedIsShortWhenOwed == (Settled /\ owed /\ ~closed) => armed = "waiting"
\* silence: an owed answer that never comes ends with the connection closed (by the SHORT deadline) ...
SilenceEnds == owed ~> (~owed \/ closed)
\* ... and a closed connection ends every call
CloseEndsCalls == \A c \in Callers : closed ~> (pc[c] \in {"idle", "done"})

TypeOK == /\ armed \in {"none", "idle", "waiting"}
          /\ rd.k \in {"arm", "recheck", "rearm", "read", "hold", "dead"}

------------------------------------------------------------------------------
Terminal == \A c \in Callers : pc[c] = "idle" /\ (gen[c] = MaxCalls \/ closed)
Emit == Terminal => PrintT(<<"BEH", ToJson([steps |-> hist])>>)
GenNext == ~Terminal /\ Next
GenSpec == Init /\ [][GenNext]_vars
ViewNoHist == <<pc, gen, ctxDone, slot, res, wire, net, rd, wresp, armed, owed, closed, ncancel>>
=============================================================================
