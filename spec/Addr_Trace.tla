--------------------------- MODULE Addr_Trace ---------------------------
(***************************************************************************)
(* Leg C for C18: what the real upstream.NewUpstream did for one address,  *)
(* recorded at harness boundaries (SOCKS5 proxy CONNECT target, loopback   *)
(* TCP/UDP/QUIC listeners, harness TLS server), checked against the        *)
(* CONTRACT part of Addr.tla (Allowed).  The token model of the code       *)
(* (ImplOutcome) is NOT used here: any implementation meeting the contract *)
(* is accepted.                                                            *)
(*                                                                         *)
(*   Case(a)                 a new address record (resets the state)       *)
(*   Reject                  NewUpstream returned an error                 *)
(*   Created                 NewUpstream returned an upstream              *)
(*   Conn(host, port, sni)   one connection / datagram flow it opened:     *)
(*                           host in {url, dial, other}: whose host it is, *)
(*                           port number, sni in {url, dial, other, na}    *)
(*   Done                    the exchange attempt ended; at least one      *)
(*                           connection must have been observed            *)
(***************************************************************************)
EXTENDS Addr, IOUtils

VARIABLES l, nconn

Trace == ndJsonDeserialize(IOEnv.TRACE_FILE)
tvars == <<vars, l, nconn>>

Ev == Trace[l]
IsEvent(e) == l <= Len(Trace) /\ Ev.ev = e /\ l' = l + 1

TraceInit == l = 1 /\ nconn = 0 /\ a = (CHOOSE c \in Cases : TRUE) /\ o = Rejected /\ pc = "end"

Reset ==
    /\ IsEvent("Case")
    /\ IsCase(Ev.a)
    /\ a' = Ev.a /\ o' = Rejected /\ pc' = "new" /\ nconn' = 0

Logged ==
    \/ IsEvent("Reject") /\ pc = "new" /\ o' = Rejected /\ pc' = "rejected" /\ UNCHANGED <<a, nconn>>
    \/ IsEvent("Created") /\ pc = "new" /\ pc' = "created" /\ UNCHANGED <<a, o, nconn>>
    \/ IsEvent("Conn") /\ pc \in {"created", "conn"}
         /\ Ev.host \in {"url", "dial", "other"} /\ Ev.sni \in {"url", "dial", "other", "na"}
         /\ Ev.port \in 0..65535
         /\ o' = Conn(Ev.host, Ev.port, Ev.sni) /\ pc' = "conn" /\ nconn' = nconn + 1 /\ UNCHANGED a
    \/ IsEvent("Done") /\ pc \in {"created", "conn"} /\ (nconn >= 1 \/ Unasserted(a))
         /\ pc' = "end" /\ UNCHANGED <<a, o, nconn>>

TraceNext == (Reset \/ Logged) /\ C18Inv'

TraceSpec == TraceInit /\ [][TraceNext]_tvars

HWM == TLCSet(1, IF TLCGet(1) < l THEN l ELSE TLCGet(1))
HWMInit == TLCSet(1, 0)
ASSUME HWMInit
Accepted == PrintT(<<"HWM", TLCGet(1), Len(Trace)>>)
=============================================================================
