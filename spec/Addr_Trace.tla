--------------------------- MODULE Addr_Trace ---------------------------
(***************************************************************************)
(* Leg C for C18: what the real upstream.NewUpstream did for one address,  *)
(* recorded at harness boundaries (SOCKS5 proxy CONNECT target, loopback   *)
(* TCP/UDP/QUIC listeners, harness TLS server), checked against the        *)
(* CONTRACT part of Addr.tla (Allowed).  The token model of the code       *)
(* (ImplOutcome) is NOT used here: any implementation meeting the contract *)
(* is accepted.                                                            *)
(*                                                                         *)
(*   Case(a, refuse)         a new address record (resets the state);      *)
(*                           refuse: nothing listens at the expected       *)
(*                           destination (decoys do), so no connection     *)
(*                           needs to be observed - but none elsewhere     *)
(*   Reject                  NewUpstream returned an error                 *)
(*   Created                 NewUpstream returned an upstream              *)
(*   Conn(host, port, sni)   one connection / datagram flow it opened:     *)
(*                           host in {url, dial, other}: whose host it is, *)
(*                           port number, sni in {url, dial, other, na}    *)
(*   Done                    the exchange attempt ended; at least one      *)
(*                           connection must have been observed            *)
(***************************************************************************)
EXTENDS Addr, IOUtils

VARIABLES l, nconn, refuse

Trace == ndJsonDeserialize(IOEnv.TRACE_FILE)
tvars == <<vars, l, nconn, refuse>>

Ev == Trace[l]
IsEvent(e) == l <= Len(Trace) /\ Ev.ev = e /\ l' = l + 1

TraceInit == l = 1 /\ nconn = 0 /\ refuse = FALSE /\ a = (CHOOSE c \in Cases : TRUE) /\ o = Rejected /\ pc = "end"

Reset ==
    /\ IsEvent("Case")
    /\ IsCase(Ev.a)
    /\ a' = Ev.a /\ o' = Rejected /\ pc' = "new" /\ nconn' = 0
    /\ refuse' = ("refuse" \in DOMAIN Ev /\ Ev.refuse)

Logged ==
    \/ IsEvent("Reject") /\ pc = "new" /\ o' = Rejected /\ pc' = "rejected" /\ UNCHANGED <<a, nconn, refuse>>
    \/ IsEvent("Created") /\ pc = "new" /\ pc' = "created" /\ UNCHANGED <<a, o, nconn, refuse>>
    \/ IsEvent("Conn") /\ pc \in {"created", "conn"}
         /\ Ev.host \in {"url", "dial", "other"} /\ Ev.sni \in {"url", "dial", "other", "na"}
         /\ Ev.port \in 0..65535
         /\ o' = Conn(Ev.host, Ev.port, Ev.sni) /\ pc' = "conn" /\ nconn' = nconn + 1 /\ UNCHANGED <<a, refuse>>
    \/ IsEvent("Done") /\ pc \in {"created", "conn"} /\ (nconn >= 1 \/ Unasserted(a) \/ refuse)
         /\ pc' = "end" /\ UNCHANGED <<a, o, nconn, refuse>>

TraceNext == (Reset \/ Logged) /\ C18Inv'

TraceSpec == TraceInit /\ [][TraceNext]_tvars

HWM == TLCSet(1, IF TLCGet(1) < l THEN l ELSE TLCGet(1))
HWMInit == TLCSet(1, 0)
ASSUME HWMInit
Accepted == PrintT(<<"HWM", TLCGet(1), Len(Trace)>>)
=============================================================================
