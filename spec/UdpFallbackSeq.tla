--------------------------- MODULE UdpFallbackSeq ---------------------------
(***************************************************************************)
(* C17, several exchanges on ONE upstream: every exchange's outcome follows *)
(* ITS OWN UDP reply (TC => retried over TCP, the TCP reply to its own     *)
(* query is what the caller gets; no TC => its own UDP reply, no TCP),     *)
(* whatever happened to other exchanges on the shared UDP socket and the   *)
(* shared pool of TCP connections.                                         *)
(*                                                                         *)
(* pkg/upstream/upstream.go : udpWithFallback (u.u = PipelineTransport on  *)
(*                            one UDP socket, u.t = ReuseConnTransport)    *)
(* pkg/upstream/transport/conn_traditional.go : wire ids (addQueueC)       *)
(* pkg/upstream/transport/reuse.go : ExchangeContext (bounded retry on     *)
(*     reused connections), getIdleConn/setIdle, exchange / readLoop /     *)
(*     closeWithErr                                                        *)
(*                                                                         *)
(*   Start(x)        ExchangeContext(x) is called (own question)           *)
(*   UdpDone(x)      x's own UDP reply arrived: TC => TCP, else result     *)
(*   UdpDup(y, x)    a late / duplicated copy of the reply to the FINISHED *)
(*                   exchange y arrives while x waits for its UDP reply:   *)
(*                   ignored (its wire id is not x's)                      *)
(*   Accept          a new TCP connection is dialled (joins the idle pool) *)
(*   Send(x, c)      x takes live connection c out of the pool, registers  *)
(*                   as its waiter, writes its query; the server queues it *)
(*   SendDead(x, c)  x takes a pooled connection the server has closed     *)
(*                   (not yet noticed by the client): the attempt fails,   *)
(*                   after MaxTries failed attempts x ends in an error     *)
(*   Cancel(x)       x's context ends after its query was written: error;  *)
(*                   the connection stays busy (the reply is still owed)   *)
(*   Resend(x, c)    the retry after a failure on a reused connection also *)
(*                   fires after a cancellation                            *)
(*   Answer(c)       the server answers the oldest query on c (late, in    *)
(*                   order); readLoop hands it to the waiter; c is idle    *)
(*   ServerClose(c)  the server closes an idle connection                  *)
(*   Notice(c)       the client's reader sees the close: closeWithErr      *)
(*                   removes c from the pool                               *)
(* Matching = FALSE is the design (no id matching on TCP: the reply goes   *)
(* to whoever waits on the connection); Matching = TRUE is the contract    *)
(* used for trace validation (the reply to y can only go to y).            *)
(* Deviation switches: IdleOnCancel, ForgetKeepsIdle (a noticed close      *)
(* leaves the connection in the idle pool), DupAccepted (wire ids restart, *)
(* a stale UDP reply is taken for the current exchange).                   *)
(* Burst = K > 0 forces one schedule shape (generator only): exchanges     *)
(* 1..K overlap (K pooled connections), all are answered, the server       *)
(* closes all K connections, the client notices, then K+1 runs.            *)
(***************************************************************************)
EXTENDS Naturals, Sequences, FiniteSets, TLC, Json

CONSTANTS N, MaxConn, MaxResend, MaxTries, MaxDup, TcChoices, Overlap, Burst,
          EnvCancel, EnvClose, EnvDup,
          Matching, ReuseBusy,
          IdleOnCancel, ForgetKeepsIdle, DupAccepted,
          WithHist, Export

VARIABLES tcx, phase, cancelled, nconn, waiting, idle, dead, sclosed, noticed, srvq,
          result, resFor, resent, ndup, tries, hitNoticed, hist
vars == <<tcx, phase, cancelled, nconn, waiting, idle, dead, sclosed, noticed, srvq,
          result, resFor, resent, ndup, tries, hitNoticed, hist>>

X == 1..N
C == 1..MaxConn
H(e) == hist' = IF WithHist THEN Append(hist, e) ELSE hist

Init ==
    /\ tcx \in [X -> TcChoices]
    /\ phase = [x \in X |-> "new"] /\ cancelled = {} /\ nconn = 0
    /\ waiting = [c \in C |-> 0] /\ idle = {} /\ dead = {} /\ sclosed = {} /\ noticed = {}
    /\ srvq = [c \in C |-> <<>>]
    /\ result = [x \in X |-> "none"] /\ resFor = [x \in X |-> 0] /\ resent = 0 /\ ndup = 0
    /\ tries = [x \in X |-> 0] /\ hitNoticed = [x \in X |-> FALSE] /\ hist = <<>>

Start(x) ==
    /\ phase[x] = "new"
    /\ IF Burst > 0
       THEN IF x <= Burst THEN \A y \in X : y < x => phase[y] = "wait"
            ELSE (\A y \in X : y < x => phase[y] = "done") /\ (\A c \in 1..nconn : c \in noticed)
       ELSE \A y \in X : y < x => IF Overlap THEN phase[y] # "new" ELSE phase[y] = "done"
    /\ phase' = [phase EXCEPT ![x] = "udp"] /\ H(<<"start", x>>)
    /\ UNCHANGED <<tcx, cancelled, nconn, waiting, idle, dead, sclosed, noticed, srvq, result, resFor, resent, ndup, tries, hitNoticed>>

\* x is handed the UDP reply that was made for exchange y (y = x: its own)
TakeUdp(x, y) ==
    IF tcx[y]
    THEN phase' = [phase EXCEPT ![x] = "tcp"] /\ UNCHANGED <<result, resFor>>
    ELSE /\ phase' = [phase EXCEPT ![x] = "done"]
         /\ result' = [result EXCEPT ![x] = "udp"] /\ resFor' = [resFor EXCEPT ![x] = y]

UdpDone(x) ==
    /\ phase[x] = "udp"
    /\ TakeUdp(x, x)
    /\ UNCHANGED <<tcx, cancelled, nconn, waiting, idle, dead, sclosed, noticed, srvq, resent, ndup, tries, hitNoticed, hist>>

UdpDup(y, x) ==
    /\ EnvDup /\ ndup < MaxDup /\ y # x /\ phase[x] = "udp" /\ phase[y] = "done"
    /\ ndup' = ndup + 1
    /\ IF DupAccepted THEN TakeUdp(x, y) ELSE UNCHANGED <<phase, result, resFor>>
    /\ H(<<"dup", y>>)
    /\ UNCHANGED <<tcx, cancelled, nconn, waiting, idle, dead, sclosed, noticed, srvq, resent, tries, hitNoticed>>

\* (also in the background: a cancelled exchange that had reused a connection retries, and the dial
\* it started completes after the caller has gone; the connection goes to the pool)
Accept ==
    /\ nconn < MaxConn /\ \E x \in X : phase[x] = "tcp" \/ x \in cancelled
    /\ nconn' = nconn + 1 /\ idle' = idle \cup {nconn + 1}
    /\ UNCHANGED <<tcx, phase, cancelled, waiting, dead, sclosed, noticed, srvq, result, resFor, resent, ndup, tries, hitNoticed, hist>>

Send(x, c) ==
    /\ phase[x] = "tcp" /\ c \in 1..nconn /\ c \notin dead /\ c \notin sclosed
    /\ c \in idle \/ ReuseBusy
    /\ idle' = idle \ {c}
    /\ waiting' = [waiting EXCEPT ![c] = x]
    /\ srvq' = [srvq EXCEPT ![c] = Append(@, x)]
    /\ phase' = [phase EXCEPT ![x] = "wait"]
    /\ UNCHANGED <<tcx, cancelled, nconn, dead, sclosed, noticed, result, resFor, resent, ndup, tries, hitNoticed, hist>>

\* a pooled connection that the server has closed: the write / read fails, ExchangeContext tries
\* again (another pooled connection or a fresh one) - at most MaxTries failed attempts
SendDead(x, c) ==
    /\ phase[x] = "tcp" /\ c \in idle /\ c \in sclosed
    /\ Matching => c \notin noticed      \* contract: a connection whose close was noticed is not offered again
    /\ idle' = idle \ {c}
    /\ tries' = [tries EXCEPT ![x] = @ + 1]
    /\ hitNoticed' = [hitNoticed EXCEPT ![x] = @ \/ c \in noticed]
    /\ IF tries'[x] >= MaxTries
       THEN phase' = [phase EXCEPT ![x] = "done"] /\ result' = [result EXCEPT ![x] = "err"]
       ELSE UNCHANGED <<phase, result>>
    /\ UNCHANGED <<tcx, cancelled, nconn, waiting, dead, sclosed, noticed, srvq, resFor, resent, ndup, hist>>

\* ExchangeContext retries when an exchange on a REUSED connection fails - also when it "failed"
\* because the caller's context ended: the query is written once more to another idle connection
\* and abandoned at once (the caller still gets its context error)
Resend(x, c) ==
    /\ x \in cancelled /\ resent < MaxResend
    /\ c \in 1..nconn /\ c \notin dead /\ c \notin sclosed /\ (c \in idle \/ ReuseBusy)
    /\ idle' = idle \ {c}
    /\ waiting' = [waiting EXCEPT ![c] = x]
    /\ srvq' = [srvq EXCEPT ![c] = Append(@, x)]
    /\ resent' = resent + 1
    /\ UNCHANGED <<tcx, phase, cancelled, nconn, dead, sclosed, noticed, result, resFor, ndup, tries, hitNoticed, hist>>

ConnOf(x) == CHOOSE c \in C : \E i \in 1..Len(srvq[c]) : srvq[c][i] = x

Cancel(x) ==
    /\ EnvCancel /\ phase[x] = "wait"
    /\ phase' = [phase EXCEPT ![x] = "done"] /\ result' = [result EXCEPT ![x] = "err"]
    /\ cancelled' = cancelled \cup {x}
    /\ IF IdleOnCancel
       THEN LET c == ConnOf(x) IN waiting' = [waiting EXCEPT ![c] = 0] /\ idle' = idle \cup {c}
       ELSE UNCHANGED <<waiting, idle>>
    /\ H(<<"cancel", x>>)
    /\ UNCHANGED <<tcx, nconn, dead, sclosed, noticed, srvq, resFor, resent, ndup, tries, hitNoticed>>

Answer(c) ==
    /\ c \in 1..nconn /\ srvq[c] # <<>>
    /\ Burst > 0 => \A x \in 1..Burst : phase[x] \in {"wait", "done"}
    /\ LET y == Head(srvq[c])
           w == IF Matching THEN (IF phase[y] = "wait" THEN y ELSE 0) ELSE waiting[c] IN
       /\ srvq' = [srvq EXCEPT ![c] = Tail(@)]
       /\ H(<<"answer", y>>)
       /\ IF c \in dead THEN UNCHANGED <<phase, waiting, idle, dead, result, resFor>>
          ELSE IF ~Matching /\ w = 0
          THEN \* errUnexpectedResp: nobody waits, the connection is dropped
               /\ dead' = dead \cup {c} /\ idle' = idle \ {c}
               /\ UNCHANGED <<phase, waiting, result, resFor>>
          ELSE /\ waiting' = [waiting EXCEPT ![c] = IF @ = w \/ ~Matching THEN 0 ELSE @]
               /\ idle' = IF waiting'[c] = 0 THEN idle \cup {c} ELSE idle
               /\ IF w # 0 /\ phase[w] = "wait"
                  THEN /\ phase' = [phase EXCEPT ![w] = "done"]
                       /\ result' = [result EXCEPT ![w] = "tcp"] /\ resFor' = [resFor EXCEPT ![w] = y]
                  ELSE UNCHANGED <<phase, result, resFor>>
               /\ UNCHANGED dead
    /\ UNCHANGED <<tcx, cancelled, nconn, sclosed, noticed, resent, ndup, tries, hitNoticed>>

ServerClose(c) ==
    /\ EnvClose /\ c \in 1..nconn /\ c \notin sclosed /\ c \notin dead
    /\ srvq[c] = <<>> /\ waiting[c] = 0 /\ c \in idle
    /\ Burst > 0 => \A x \in 1..Burst : phase[x] = "done"
    /\ sclosed' = sclosed \cup {c}
    /\ H(<<"sclose", c>>)
    /\ UNCHANGED <<tcx, phase, cancelled, nconn, waiting, idle, dead, noticed, srvq, result, resFor, resent, ndup, tries, hitNoticed>>

Notice(c) ==
    /\ c \in sclosed /\ c \notin noticed
    /\ noticed' = noticed \cup {c}
    /\ idle' = IF ForgetKeepsIdle THEN idle ELSE idle \ {c}
    /\ UNCHANGED <<tcx, phase, cancelled, nconn, waiting, dead, sclosed, srvq, result, resFor, resent, ndup, tries, hitNoticed, hist>>

Next == \/ \E x \in X : \/ Start(x) \/ UdpDone(x) \/ Cancel(x)
                        \/ \E c \in C : Send(x, c) \/ SendDead(x, c) \/ Resend(x, c)
                        \/ \E y \in X : UdpDup(y, x)
        \/ Accept \/ \E c \in C : Answer(c) \/ ServerClose(c) \/ Notice(c)
Spec == Init /\ [][Next]_vars

TypeOK == /\ \A x \in X : phase[x] \in {"new", "udp", "tcp", "wait", "done"} /\ result[x] \in {"none", "udp", "tcp", "err"}
          /\ nconn \in 0..MaxConn /\ idle \subseteq 1..nconn

\* what a caller gets follows its own UDP reply and answers its own query
OwnReply == \A x \in X : /\ result[x] = "tcp" => resFor[x] = x /\ tcx[x]
                         /\ result[x] = "udp" => resFor[x] = x /\ ~tcx[x]
\* an exchange fails only when it was cancelled or when all its attempts hit connections the server
\* had closed ...
ErrJustified == \A x \in X : result[x] = "err" => x \in cancelled \/ tries[x] >= MaxTries
\* ... whose close the client had not noticed yet: a noticed close never costs an attempt
NoticedNotOffered == \A x \in X : ~hitNoticed[x]
\* a busy connection (reply owed) is never in the idle pool
BusyNotIdle == \A c \in 1..nconn : (c \in idle /\ c \notin dead) => srvq[c] = <<>>
C17SeqInv == OwnReply /\ ErrJustified /\ NoticedNotOffered

Terminal == (\A x \in X : phase[x] = "done") /\ \A c \in C : srvq[c] = <<>>
Emit == (Export /\ Terminal) =>
    PrintT(<<"BEH", ToJson([steps |-> hist, result |-> [x \in X |-> result[x]], tc |-> [x \in X |-> tcx[x]]])>>)
=============================================================================
