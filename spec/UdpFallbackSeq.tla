--------------------------- MODULE UdpFallbackSeq ---------------------------
(***************************************************************************)
(* C17, several exchanges on ONE upstream: every truncated reply is        *)
(* retried over TCP and "the TCP reply is what the caller gets" must mean  *)
(* the reply to ITS OWN query, also when earlier exchanges were cancelled  *)
(* while the server still owed their reply.                                *)
(*                                                                         *)
(* pkg/upstream/upstream.go : udpWithFallback (u.t = ReuseConnTransport)   *)
(* pkg/upstream/transport/reuse.go : ExchangeContext, getIdleConn/setIdle, *)
(*                                   reusableConn.exchange / readLoop      *)
(*                                                                         *)
(* Exchanges 1..N run one after the other, each with its own question.     *)
(*   Start(x)      ExchangeContext(x) is called                            *)
(*   UdpDone(x)    the truncated UDP reply arrived, msgTruncated => TCP    *)
(*   Accept        a new TCP connection is dialled (joins the idle pool)   *)
(*   Send(x, c)    x takes connection c out of the pool (getIdleConn /     *)
(*                 getNewConn), registers as its waiter and writes its     *)
(*                 query; the server queues it                             *)
(*   Cancel(x)     x's context ends after its query was written: error;    *)
(*                 the connection stays busy (the reply is still owed)     *)
(*   Answer(c)     the server answers the oldest query on c (late replies, *)
(*                 in order); readLoop hands the reply to the waiter, the  *)
(*                 connection becomes idle                                 *)
(* Matching = FALSE is the design (the transport does not match ids: the   *)
(* reply goes to whoever waits on the connection); Matching = TRUE is the  *)
(* contract used for trace validation (the reply to y can only go to y).   *)
(* Deviation switch IdleOnCancel: a cancelled exchange puts its connection *)
(* back into the idle pool.                                                *)
(***************************************************************************)
EXTENDS Naturals, Sequences, FiniteSets, TLC, Json

CONSTANTS N, MaxConn, MaxResend, Matching, ReuseBusy, IdleOnCancel, WithHist, Export

VARIABLES phase, cancelled, nconn, waiting, idle, dead, srvq, result, resFor, resent, hist
vars == <<phase, cancelled, nconn, waiting, idle, dead, srvq, result, resFor, resent, hist>>

X == 1..N
C == 1..MaxConn
H(e) == hist' = IF WithHist THEN Append(hist, e) ELSE hist

Init ==
    /\ phase = [x \in X |-> "new"] /\ cancelled = {} /\ nconn = 0
    /\ waiting = [c \in C |-> 0] /\ idle = {} /\ dead = {} /\ srvq = [c \in C |-> <<>>]
    /\ result = [x \in X |-> "none"] /\ resFor = [x \in X |-> 0] /\ resent = 0 /\ hist = <<>>

Start(x) ==
    /\ phase[x] = "new" /\ \A y \in X : y < x => phase[y] = "done"
    /\ phase' = [phase EXCEPT ![x] = "udp"] /\ H(<<"start", x>>)
    /\ UNCHANGED <<cancelled, nconn, waiting, idle, dead, srvq, result, resFor, resent>>

UdpDone(x) ==
    /\ phase[x] = "udp"
    /\ phase' = [phase EXCEPT ![x] = "tcp"]
    /\ UNCHANGED <<cancelled, nconn, waiting, idle, dead, srvq, result, resFor, resent, hist>>

\* (also in the background: a cancelled exchange that had reused a connection retries, and the dial
\* it started completes after the caller has gone; the connection goes to the pool)
Accept ==
    /\ nconn < MaxConn /\ \E x \in X : phase[x] = "tcp" \/ x \in cancelled
    /\ nconn' = nconn + 1 /\ idle' = idle \cup {nconn + 1}
    /\ UNCHANGED <<phase, cancelled, waiting, dead, srvq, result, resFor, resent, hist>>

Send(x, c) ==
    /\ phase[x] = "tcp" /\ c \in 1..nconn /\ c \notin dead
    /\ c \in idle \/ ReuseBusy
    /\ idle' = idle \ {c}
    /\ waiting' = [waiting EXCEPT ![c] = x]
    /\ srvq' = [srvq EXCEPT ![c] = Append(@, x)]
    /\ phase' = [phase EXCEPT ![x] = "wait"]
    /\ UNCHANGED <<cancelled, nconn, dead, result, resFor, resent, hist>>

\* ExchangeContext retries when an exchange on a REUSED connection fails - also when it "failed"
\* because the caller's context ended: the query is written once more to another idle connection
\* and abandoned at once (the caller still gets its context error)
Resend(x, c) ==
    /\ x \in cancelled /\ resent < MaxResend
    /\ c \in 1..nconn /\ c \notin dead /\ (c \in idle \/ ReuseBusy)
    /\ idle' = idle \ {c}
    /\ waiting' = [waiting EXCEPT ![c] = x]
    /\ srvq' = [srvq EXCEPT ![c] = Append(@, x)]
    /\ resent' = resent + 1
    /\ UNCHANGED <<phase, cancelled, nconn, dead, result, resFor, hist>>

ConnOf(x) == CHOOSE c \in C : \E i \in 1..Len(srvq[c]) : srvq[c][i] = x

Cancel(x) ==
    /\ phase[x] = "wait"
    /\ phase' = [phase EXCEPT ![x] = "done"] /\ result' = [result EXCEPT ![x] = "err"]
    /\ cancelled' = cancelled \cup {x}
    /\ IF IdleOnCancel
       THEN LET c == ConnOf(x) IN waiting' = [waiting EXCEPT ![c] = 0] /\ idle' = idle \cup {c}
       ELSE UNCHANGED <<waiting, idle>>
    /\ H(<<"cancel", x>>)
    /\ UNCHANGED <<nconn, dead, srvq, resFor, resent>>

Answer(c) ==
    /\ c \in 1..nconn /\ srvq[c] # <<>>
    /\ LET y == Head(srvq[c])
           w == IF Matching THEN (IF phase[y] = "wait" THEN y ELSE 0) ELSE waiting[c] IN
       /\ srvq' = [srvq EXCEPT ![c] = Tail(@)]
       /\ H(<<"answer", y>>)
       /\ IF c \in dead THEN UNCHANGED <<phase, waiting, idle, dead, result, resFor>>
          ELSE IF ~Matching /\ w = 0
          THEN \* errUnexpectedResp: nobody waits, the connection is dropped
               /\ dead' = dead \cup {c} /\ idle' = idle \ {c}
               /\ UNCHANGED <<phase, waiting, result, resFor>>
          ELSE /\ waiting' = [waiting EXCEPT ![c] = IF @ = w \/ ~Matching THEN 0 ELSE @]
               /\ idle' = IF waiting'[c] = 0 THEN idle \cup {c} ELSE idle
               /\ IF w # 0 /\ phase[w] = "wait"
                  THEN /\ phase' = [phase EXCEPT ![w] = "done"]
                       /\ result' = [result EXCEPT ![w] = "tcp"] /\ resFor' = [resFor EXCEPT ![w] = y]
                  ELSE UNCHANGED <<phase, result, resFor>>
               /\ UNCHANGED dead
    /\ UNCHANGED <<cancelled, nconn, resent>>

Next == \/ \E x \in X : Start(x) \/ UdpDone(x) \/ Cancel(x) \/ \E c \in C : Send(x, c) \/ Resend(x, c)
        \/ Accept \/ \E c \in C : Answer(c)
Spec == Init /\ [][Next]_vars

TypeOK == /\ \A x \in X : phase[x] \in {"new", "udp", "tcp", "wait", "done"} /\ result[x] \in {"none", "tcp", "err"}
          /\ nconn \in 0..MaxConn /\ idle \subseteq 1..nconn

\* the TCP reply a caller gets answers its own query
OwnReply == \A x \in X : result[x] = "tcp" => resFor[x] = x
\* only a cancelled exchange ends in an error (the server answers everything here)
ErrOnlyCancelled == \A x \in X : result[x] = "err" => x \in cancelled
\* a busy connection (reply owed) is never in the idle pool
BusyNotIdle == \A c \in 1..nconn : (c \in idle /\ c \notin dead) => srvq[c] = <<>>
C17SeqInv == OwnReply /\ ErrOnlyCancelled

Terminal == (\A x \in X : phase[x] = "done") /\ \A c \in C : srvq[c] = <<>>
Emit == (Export /\ Terminal) =>
    PrintT(<<"BEH", ToJson([steps |-> hist, result |-> [x \in X |-> result[x]]])>>)
=============================================================================
