\* leg A (thorough): all kinds x listener behaviours, 2 calls + a late call, 2 dials, cancel; invariants
SPECIFICATION Spec
CONSTANTS
  Kinds = {"tcp", "tls", "tcp+pipeline", "tls+pipeline", "udp"}
  Listens = {"accept", "refuse", "hang"}
  InitCalls = {1, 2}
  LateCall = 3
  MaxD = 2
  EnvCancel = TRUE
  WithHist = FALSE
  Eager = FALSE
  Deviation = "none"
INVARIANTS TypeOK DialEndsOnTimeout ExchangeEndsOnDialTimeout CloseCancelsDial PendingCallsEndOnClose LaterCallsFailImmediately ResultSound
VIEW ViewNoHist
CHECK_DEADLOCK FALSE
