--------------------------- MODULE PipeConn_Trace ---------------------------
(***************************************************************************)
(* Leg C: traces recorded by harness/drv_pipeconn (the REAL                *)
(* TraditionalDnsConn over a scripted simnet.Conn) checked against         *)
(* PipeConn.tla.  Logged events (one ndjson line each):                    *)
(*   reset{maxCq,dgram,qid0,rd}  new connection (resets the state)         *)
(*   Reserve{c,o} Withdraw{c} Start{c,g}   API calls made by the controller*)
(*   ConnWrite{c,g,wid,dead,bufok}  the code called Write (logged inside   *)
(*                               the call); dead: the conn was already     *)
(*                               closed; bufok: the caller's own query     *)
(*                               buffer is unmodified at that instant      *)
(*                               (ExchangeReserved MUST NOT modify q)      *)
(*   WriteRet{c,ok}              the controller let that Write return      *)
(*   ArmIdle                     reader called SetReadDeadline(idle)       *)
(*   Deliver{c,g,n,wid}          last byte of a reply returned by Read;    *)
(*                               c = -1: stray (id of no outstanding query)*)
(*   ReadFail{kind}              Read returned EOF / error / timeout       *)
(*   ConnClose                   the code called Close() on the conn       *)
(*   Close                       controller called dc.Close()              *)
(*   Cancel{c}                   controller cancelled c's context          *)
(*   ExchangeEnd{c,g,r,rc,rg,n,idok,qok}  observed return of the call: the *)
(*                               reply names the send (rc,rg) and copy n it*)
(*                               answers; idok/qok: caller's id/question   *)
(*   Stuck{c}                    the call has not returned after the grace *)
(*                               period although nothing is being held     *)
(*   Bulk{last}                  unrecorded helper exchanges moved the id  *)
(*                               counter; last = last id they used         *)
(* Silent (inferred by TLC): AddQueue EarlyClosed WriteFailClose TakeReply  *)
(* SeeClose SeeCtx                                                         *)
(* DelQueue Dispatch ReaderClose ReaderDies.                               *)
(* The invariants of the property under check (constant Props) are         *)
(* conjoined to every step: a trace is accepted iff SOME behaviour of the  *)
(* design spec explains it and satisfies them throughout.                  *)
(***************************************************************************)
EXTENDS PipeConn, IOUtils

CONSTANT Props      \* subset of {"C01", "C02", "C09"}

VARIABLE l

Trace == ndJsonDeserialize(IOEnv.TRACE_FILE)
tvars == <<vars, l>>
Ev == Trace[l]
IsEvent(e) == l <= Len(Trace) /\ Ev.ev = e /\ l' = l + 1

TraceInit == l = 1 /\ Init

Reset ==
    /\ IsEvent("reset")
    /\ maxCq' = Ev.maxCq /\ dgram' = Ev.dgram
    /\ queue' = << >> /\ nextQid' = Ev.qid0 /\ reserved' = 0
    /\ closed' = FALSE /\ netClosed' = FALSE
    /\ pc' = [c \in Callers |-> "idle"] /\ qid' = [c \in Callers |-> 0]
    /\ gen' = [c \in Callers |-> 0] /\ res' = [c \in Callers |-> None]
    /\ ctxDone' = [c \in Callers |-> FALSE] /\ slot' = [c \in Callers |-> None]
    /\ wire' = {} /\ net' = {} /\ rd' = Rd(Ev.rd)
    /\ nstray' = 0 /\ ndup' = 0 /\ ncancel' = 0 /\ nfault' = 0
    /\ arrived' = [c \in Callers |-> None] /\ resent' = [c \in Callers |-> FALSE]
    /\ spurious' = FALSE /\ hist' = << >>

\* a reply handed to the reader: produced by the server for a send it has received (any copy number)
DeliverEv ==
    /\ IF Ev.c = NoC
         THEN ~Busy(Ev.wid) /\ \A s \in wire : s.wid # Ev.wid
         ELSE \E s \in wire : s.c = Ev.c /\ s.g = Ev.g /\ s.wid = Ev.wid
    /\ Consume(Reply(Ev.wid, Ev.c, Ev.g, Ev.n))
    /\ UNCHANGED <<cfgv, connv, callv, envv, resent, spurious, hist>>

\* a retransmission is only ever needed while no reply has been handed over (valid because the driver
\* never keeps a call waiting for a second unless it is stuck)
ResendEv(c) ==
    /\ Resend(c) /\ slot[c].k = "none" /\ ~(rd.k = "reply" /\ Owner(rd.wid) = c)

EndEv(c) ==
    /\ pc[c] = "done" /\ gen[c] = Ev.g
    /\ IF Ev.r = "reply"
         THEN /\ res[c].k = "reply" /\ res[c].c = Ev.rc /\ res[c].g = Ev.rg /\ res[c].n = Ev.n
              /\ Ev.idok /\ Ev.qok
         ELSE res[c].k = "err"
    /\ Return(c)

StuckEv(c) ==
    /\ pc[c] = "waiting" /\ slot[c].k = "none" /\ ~closed /\ ~ctxDone[c]
    /\ ~(rd.k = "reply" /\ Owner(rd.wid) = c)
    /\ UNCHANGED vars

BulkEv ==
    /\ rd.k \in {"arm", "read"} /\ rd' = Rd("read")
    /\ ~Busy(Ev.last)
    /\ nextQid' = (Ev.last + 1) % M
    /\ UNCHANGED <<cfgv, queue, reserved, closed, netClosed, callv, envv, histv, hist>>

Logged ==
    \/ IsEvent("Reserve") /\ Reserve(Ev.c, Ev.o)
    \/ IsEvent("Withdraw") /\ Withdraw(Ev.c)
    \/ IsEvent("Start") /\ Start(Ev.c) /\ gen[Ev.c] = Ev.g
    \/ IsEvent("ConnWrite") /\ gen[Ev.c] = Ev.g /\ (("bufok" \in DOMAIN Ev) => Ev.bufok) /\
         IF Ev.dead THEN WriteDead(Ev.c)
         ELSE \/ Write(Ev.c) /\ qid[Ev.c] = Ev.wid
              \/ ResendEv(Ev.c) /\ qid[Ev.c] = Ev.wid
    \/ IsEvent("WriteRet") /\
         IF Ev.ok THEN \/ ArmWaiting(Ev.c)
                       \/ pc[Ev.c] = "waiting" /\ resent[Ev.c] /\ UNCHANGED vars
         ELSE WriteFail(Ev.c)
    \/ IsEvent("ArmIdle") /\ ArmIdle
    \/ IsEvent("Deliver") /\ DeliverEv
    \/ IsEvent("ReadFail") /\ ReadFail
    \/ IsEvent("ConnClose") /\ ConnClose
    \/ IsEvent("Close") /\ (ExtClose \/ (closed /\ UNCHANGED vars))
    \/ IsEvent("Cancel") /\ (Cancel(Ev.c) \/ ((pc[Ev.c] \in {"wfailed", "unreg", "done"} \/ ctxDone[Ev.c]) /\ UNCHANGED vars))
    \/ IsEvent("ExchangeEnd") /\ EndEv(Ev.c)
    \/ IsEvent("Stuck") /\ StuckEv(Ev.c)
    \/ IsEvent("Bulk") /\ BulkEv

Silent ==
    /\ l <= Len(Trace)
    /\ UNCHANGED l
    /\ \/ \E c \in Callers : AddQueue(c) \/ EarlyClosed(c) \/ WriteFailClose(c) \/ TakeReply(c) \/ SeeClose(c) \/ SeeCtx(c) \/ DelQueue(c)
       \/ Dispatch \/ ReaderClose \/ ReaderDies

PropInv ==
    /\ "C01" \in Props => C01Inv
    /\ "C02" \in Props => C02Inv
    /\ "C09" \in Props => C09Inv

TraceNext == (Reset \/ Logged \/ Silent) /\ PropInv'

TraceSpec == TraceInit /\ [][TraceNext]_tvars

\* high-water mark of the trace position (needs -workers 1)
HWM == TLCSet(1, IF TLCGet(1) < l THEN l ELSE TLCGet(1))
HWMInit == TLCSet(1, 0)
ASSUME HWMInit
Accepted == PrintT(<<"HWM", TLCGet(1), Len(Trace)>>)
=============================================================================
