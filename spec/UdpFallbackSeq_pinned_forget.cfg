\* non-vacuity: a noticed close leaves the connection in the idle pool -> NoticedNotOffered must fail
SPECIFICATION Spec
CONSTANTS
  N = 3
  MaxConn = 3
  MaxResend = 0
  MaxTries = 2
  MaxDup = 2
  TcChoices = {TRUE}
  Overlap = TRUE
  Burst = 0
  EnvCancel = FALSE
  EnvClose = TRUE
  EnvDup = FALSE
  Matching = FALSE
  ReuseBusy = FALSE
  IdleOnCancel = FALSE
  ForgetKeepsIdle = TRUE
  DupAccepted = FALSE
  WithHist = FALSE
  Export = FALSE
INVARIANTS C17SeqInv
CHECK_DEADLOCK FALSE
