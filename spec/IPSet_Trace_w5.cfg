SPECIFICATION TraceSpec
CONSTANTS
  W = 5
  L4 = 1
  B4s = {0}
  Fams = {"v4", "v6"}
  HostBits = TRUE
  MaxLen = 0
  KeepRule = "shorter"
  DoMask = TRUE
  GenOnly = FALSE
  EmitAll = FALSE
CONSTRAINT HWM
POSTCONDITION Accepted
CHECK_DEADLOCK FALSE
