\* non-vacuity: trie walk keeps the first (shallowest) value => DesignOK must fail
SPECIFICATION Spec
CONSTANTS
  MaxName = 3
  MaxPat = 2
  MaxRePat = 1
  KwLen = 1
  MaxRules = 2
  Defs = {"domain"}
  Types = {"domain"}
  SuffixMode = "label"
  OrderName = "fdrk"
  KeepDeepest = FALSE
  EmitAll = FALSE
INVARIANTS DesignOK
CHECK_DEADLOCK FALSE
