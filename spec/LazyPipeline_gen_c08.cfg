\* leg B generator for C08: streams of up to 4 queries, up to 3 killed connections, no cancel / Close
SPECIFICATION Spec
CONSTANTS
  NCalls = 4
  MaxDials = 5
  QueueLimit = 2
  ConnCap = 2
  Policy = "code"
  MaxRetry = 2
  AttemptBound = 4
  Dev = {}
  NoWgWait = FALSE
  ExactScan = TRUE
  MaxFaults = 3
  Kinds = {"stale", "dead"}
  CancelCalls = {}
  EnvTClose = FALSE
  OrderedStart = TRUE
  Eager = TRUE
  WithHist = TRUE
INVARIANTS Emit
CHECK_DEADLOCK FALSE
