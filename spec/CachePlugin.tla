---------------------------- MODULE CachePlugin ----------------------------
(***************************************************************************)
(* plugin/executable/cache : cache.go (Exec, doLazyUpdate, writeDump,      *)
(* readDump), utils.go (getMsgKey, getRespFromCache, saveRespToCache,      *)
(* copyNoOpt), pkg/cache (Get/Store), pkg/dnsutils/msg.go (TTL helpers).   *)
(*                                                                         *)
(*   Exec(i,q,r)    cache.go:Exec  = getMsgKey + getRespFromCache (lookup, *)
(*                  TTL rewriting, lazy hit -> doLazyUpdate) + next +      *)
(*                  saveRespToCache (admission, lifetimes, copyNoOpt)      *)
(*   RefreshEnd     the background goroutine of doLazyUpdate finishes      *)
(*   Tick(d)        time passes (integer seconds)                          *)
(*   Dump(i)        writeDump (GET /dump)                                  *)
(*   Load(j,mode)   readDump (POST /load_dump): intact / truncated         *)
(*   Mutate(h)      environment: a later plugin / the server rewrites a    *)
(*                  message it was handed (hit copy or stored original)    *)
(*                                                                         *)
(* The properties are the invariants at the end (C04 NoSharing, C05        *)
(* TTLRule NeverServedAfterExpiry AdmissionRule AtMostOneRefresh, C10      *)
(* Isolation HitId, C19 RestartTransparent; truncated loads add a subset  *)
(* of the dump by construction of LoadCut and are judged in the trace     *)
(* spec).  Deviation                                                     *)
(* switches (KeyFields, TTLMode, Dedup, RefreshOwner, Alias, DumpFields,   *)
(* Admit) make                                                             *)
(* every invariant falsifiable (non-vacuity configs *_nv_*.cfg).           *)
(* The numbers 30 / 5 / 300 / 5 / 1 of the property are constants of the   *)
(* cfg, not of the module.                                                 *)
(***************************************************************************)
EXTENDS Integers, Sequences, FiniteSets, TLC, Json

CONSTANTS
    Names, Types, Classes, Flags,   \* abstract question universes; Flags \subseteq 0..7 (ad=1, cd=2, do=4)
    Kinds,          \* query kinds: "std" cacheable; "qr", "opcode", "noq", "twoq" bypass
    KeyFields,      \* components of the question forming the key; C04 = all of {"name","type","class","ad","cd","do"}
    Resps,          \* abstract answers of `next`: [rc, tc, nan, ttls, opt]
    LazyTTLs,       \* lazy_cache_ttl values explored (0 = off)
    Ticks, MaxNow, MaxOps,
    NxMax, SfMax, EmptyMax, StaleTTL,   \* 30, 5, 300, 5
    TTLMode,        \* "stored" (property) | "expiry" | "noclamp" | "staleaged"  (deviations)
    Admit,          \* "rule" (property) | "tc" | "rcode" | "zero" | "optttl" | "nxlong"  (deviations)
    Dedup,          \* TRUE (property): one refresh per key in flight
    RefreshOwner,   \* "asked" (property): a background refresh fetches the question the cache was asked (the key it
                    \* was looked up under) | "other": it may fetch another question and store it under that key
    Alias,          \* "none" (property) | "store" | "hit" (shared message) | "id" (ID not rewritten)
    DumpFields,     \* subset of {"stored","msgexp","cacheexp"} written by Dump; property = all
    Insts,          \* plugin instances
    OpKinds,        \* subset of {"exec","tick","refresh","dump","load","cut","mutate"}
    MaxHandles,
    WithHist

VARIABLES
    lazy,        \* lazy_cache_ttl of this run
    now,         \* integer clock (seconds)
    cache,       \* [Insts -> set of entries], at most one entry per key
    serial,      \* ids of the answers produced by `next`
    inflight,    \* set of [i, key, q, rid]: background refreshes running
    handles,     \* sequence of [i, id, kind]: messages handed to the outside ("hit" copy / "orig" stored object)
    dump,        \* the last dump (set of entries) and where it came from
    dumpOf,
    mirror,      \* <<i, j>>: j was loaded, empty, from an intact dump of i and neither changed since; <<>> otherwise
    obs, lastq,  \* last observation, last query
    nops,
    hist

vars == <<lazy, now, cache, serial, inflight, handles, dump, dumpOf, mirror, obs, lastq, nops, hist>>

Min2(a, b) == IF a < b THEN a ELSE b
Max2(a, b) == IF a > b THEN a ELSE b
SeqMin(s) == CHOOSE m \in {s[j] : j \in DOMAIN s} : \A j \in DOMAIN s : m <= s[j]
Epoch == -2000000000      \* "1970" seen from now: a stored time that was not written

H(e) == hist' = IF WithHist THEN Append(hist, e) ELSE hist

------------------------------------------------------------------------------
\* questions and keys (C04)

Bit(f, b) == (f \div b) % 2
QOf(q) == [n |-> q.n, t |-> q.t, c |-> q.c, f |-> q.f]
NoQ == [n |-> "-", t |-> "-", c |-> "-", f |-> 0]

KeyOf(q) ==
    [n  |-> IF "name" \in KeyFields THEN q.n ELSE "-",
     t  |-> IF "type" \in KeyFields THEN q.t ELSE "-",
     c  |-> IF "class" \in KeyFields THEN q.c ELSE "-",
     ad |-> IF "ad" \in KeyFields THEN Bit(q.f, 1) ELSE 0,
     cd |-> IF "cd" \in KeyFields THEN Bit(q.f, 2) ELSE 0,
     do |-> IF "do" \in KeyFields THEN Bit(q.f, 4) ELSE 0]

SameQuestion(a, b) == a.n = b.n /\ a.t = b.t /\ a.c = b.c /\ a.f = b.f

Queries == [n : Names, t : Types, c : Classes, f : Flags, k : Kinds]

------------------------------------------------------------------------------
\* admission and lifetimes (C05)

MinTTL(r) == IF r.ttls = <<>> THEN 0 ELSE SeqMin(r.ttls)

\* upper bounds of the property
MsgBound(r) ==
    IF r.tc THEN 0
    ELSE CASE r.rc = 3 -> NxMax
           [] r.rc = 2 -> SfMax
           [] r.rc = 0 -> IF r.nan = 0 THEN Min2(EmptyMax, MinTTL(r)) ELSE MinTTL(r)
           [] OTHER    -> 0
CacheBound(r, lz) ==
    IF MsgBound(r) > 0 /\ r.rc = 0 /\ r.nan > 0 /\ lz > 0 THEN Max2(lz, MsgBound(r)) ELSE MsgBound(r)

\* what this design does (= the bound, unless a deviation is switched on)
MsgLife(r) ==
    CASE Admit = "tc" /\ r.tc           -> IF r.rc = 0 /\ r.nan > 0 THEN MinTTL(r) ELSE NxMax
      [] Admit = "rcode" /\ r.rc = 5 /\ ~r.tc -> NxMax
      [] Admit = "zero" /\ r.rc = 0 /\ ~r.tc /\ MinTTL(r) = 0 -> 1
      [] Admit = "optttl" /\ r.opt      -> 0
      [] Admit = "nxlong" /\ r.rc = 3 /\ ~r.tc -> EmptyMax
      [] OTHER -> MsgBound(r)
CacheLife(r, lz) ==
    IF MsgLife(r) > 0 /\ r.rc = 0 /\ r.nan > 0 /\ lz > 0 THEN lz ELSE MsgLife(r)

NewEntry(k, q, r, id) ==
    [key |-> k, owner |-> QOf(q), id |-> id, r |-> r, stored |-> now,
     msgExp |-> now + MsgLife(r), cacheExp |-> now + CacheLife(r, lazy), cont |-> "orig"]

Put(S, e) == {x \in S : x.key # e.key} \cup {e}

Store(i, k, q, r, id) ==
    IF MsgLife(r) > 0 /\ CacheLife(r, lazy) > 0
    THEN [cache EXCEPT ![i] = Put(@, NewEntry(k, q, r, id))]
    ELSE cache

------------------------------------------------------------------------------
\* lookup (C04, C05)

Aged(e) ==
    [j \in DOMAIN e.r.ttls |->
        CASE TTLMode = "stored"  -> Max2(1, e.r.ttls[j] - (now - e.stored))
          [] TTLMode = "noclamp" -> Max2(0, e.r.ttls[j] - (now - e.stored))
          [] TTLMode = "expiry"  -> Max2(1, e.msgExp - now)
          [] OTHER               -> Max2(1, e.r.ttls[j] - (now - e.stored))]

Find(i, k) == {e \in cache[i] : e.key = k /\ now < e.cacheExp}

Miss   == [res |-> "miss",   owner |-> NoQ, id |-> 0, ttls |-> <<>>, cont |-> "orig", idok |-> TRUE, i |-> 0]
Bypass == [res |-> "bypass", owner |-> NoQ, id |-> 0, ttls |-> <<>>, cont |-> "orig", idok |-> TRUE, i |-> 0]
Ack(s) == [res |-> s,        owner |-> NoQ, id |-> 0, ttls |-> <<>>, cont |-> "orig", idok |-> TRUE, i |-> 0]

\* what a lookup of key k on instance i serves right now
View(i, k) ==
    IF Find(i, k) = {} THEN Miss
    ELSE LET e == CHOOSE e \in Find(i, k) : TRUE IN
         IF now < e.msgExp
         THEN [res |-> "hit", owner |-> e.owner, id |-> e.id, ttls |-> Aged(e), cont |-> e.cont, idok |-> Alias # "id", i |-> i]
         ELSE IF lazy > 0
         THEN [res |-> "stale", owner |-> e.owner, id |-> e.id,
               ttls |-> IF TTLMode = "staleaged" THEN Aged(e) ELSE [j \in DOMAIN e.r.ttls |-> StaleTTL], cont |-> e.cont, idok |-> TRUE, i |-> i]
         ELSE Miss

Refreshing(i, k) == \E f \in inflight : f.i = i /\ f.key = k

AddHandle(h) == IF "mutate" \in OpKinds /\ Len(handles) < MaxHandles THEN Append(handles, h) ELSE handles

Exec(i, q, r) ==
    /\ "exec" \in OpKinds /\ nops < MaxOps
    /\ nops' = nops + 1 /\ lastq' = q
    /\ LET k == KeyOf(q)
           v == IF q.k = "std" THEN View(i, k) ELSE Bypass
       IN /\ obs' = v
          /\ IF v.res = "miss"
             THEN /\ cache' = Store(i, k, q, r, serial)
                  /\ serial' = serial + 1
                  /\ handles' = IF cache' # cache THEN AddHandle([i |-> i, id |-> serial, kind |-> "orig"]) ELSE handles
                  /\ mirror' = IF cache' # cache /\ i \in {mirror[x] : x \in DOMAIN mirror} THEN <<>> ELSE mirror
                  /\ UNCHANGED inflight
             ELSE /\ UNCHANGED <<cache, mirror>>
                  /\ handles' = IF v.res \in {"hit", "stale"}
                                THEN AddHandle([i |-> i, id |-> v.id, kind |-> "hit"]) ELSE handles
                  /\ IF v.res = "stale" /\ (~Dedup \/ ~Refreshing(i, k))
                     THEN /\ inflight' = inflight \cup {[i |-> i, key |-> k, q |-> q, rid |-> serial]}
                          /\ serial' = serial + 1
                     ELSE UNCHANGED <<inflight, serial>>
    /\ H([a |-> "Exec", i |-> i, q |-> q, r |-> r, now |-> now, o |-> obs', sid |-> serial,
          e |-> IF "tick" \in OpKinds THEN cache[i] ELSE {}])
    /\ UNCHANGED <<lazy, now, dump, dumpOf>>

\* the background refresh of doLazyUpdate returns with answer r
RefreshEnd(f, r, oq) ==
    /\ "refresh" \in OpKinds /\ f \in inflight
    /\ (RefreshOwner = "asked") => oq = f.q
    /\ inflight' = inflight \ {f}
    /\ cache' = Store(f.i, f.key, oq, r, f.rid)
    /\ mirror' = IF cache' # cache /\ f.i \in {mirror[x] : x \in DOMAIN mirror} THEN <<>> ELSE mirror
    /\ obs' = Ack("refreshed")
    /\ H([a |-> "RefreshEnd", i |-> f.i, q |-> f.q, r |-> r, now |-> now])
    /\ UNCHANGED <<lazy, now, serial, handles, dump, dumpOf, lastq, nops>>

Tick(d) ==
    /\ "tick" \in OpKinds /\ now + d <= MaxNow /\ nops < MaxOps
    /\ now' = now + d /\ nops' = nops + 1
    /\ obs' = Ack("tick")
    /\ H([a |-> "Tick", d |-> d])
    /\ UNCHANGED <<lazy, cache, serial, inflight, handles, dump, dumpOf, mirror, lastq>>

------------------------------------------------------------------------------
\* dump / load (C19)

Dumped(e) ==
    [e EXCEPT !.stored   = IF "stored" \in DumpFields THEN @ ELSE Epoch,
              !.msgExp   = IF "msgexp" \in DumpFields THEN @ ELSE e.cacheExp,
              !.cacheExp = IF "cacheexp" \in DumpFields THEN @ ELSE e.msgExp]

Dump(i) ==
    /\ "dump" \in OpKinds /\ nops < MaxOps /\ nops' = nops + 1
    /\ dump' = {Dumped(e) : e \in {x \in cache[i] : now < x.cacheExp}}
    /\ dumpOf' = i
    /\ obs' = Ack("dumped")
    /\ H([a |-> "Dump", i |-> i, now |-> now, ec |-> [x \in 1..Cardinality(Insts) |-> cache[x]]])
    /\ UNCHANGED <<lazy, now, cache, serial, inflight, handles, mirror, lastq>>

LiveOf(S) == {e \in S : now < e.cacheExp}
Overlay(S, D) == {x \in S : \A e \in D : e.key # x.key} \cup D

\* intact dump
Load(j) ==
    /\ "load" \in OpKinds /\ nops < MaxOps /\ nops' = nops + 1
    /\ dumpOf \in Insts
    /\ cache' = [cache EXCEPT ![j] = Overlay(@, LiveOf(dump))]
    /\ mirror' = IF cache[j] = {} /\ dumpOf # j /\ LiveOf(dump) = {Dumped(e) : e \in LiveOf(cache[dumpOf])}
                 THEN <<dumpOf, j>> ELSE <<>>
    /\ obs' = Ack("loaded")
    /\ H([a |-> "Load", j |-> j, now |-> now])
    /\ UNCHANGED <<lazy, now, serial, inflight, handles, dump, dumpOf, lastq>>

\* truncated dump: an error, and only entries of the intact dump are added (any subset: where the
\* decoder stops is not part of the property)
LoadCut(j, S) ==
    /\ "cut" \in OpKinds /\ nops < MaxOps /\ nops' = nops + 1
    /\ dumpOf \in Insts /\ S \subseteq LiveOf(dump)
    /\ cache' = [cache EXCEPT ![j] = Overlay(@, S)]
    /\ mirror' = IF j \in {mirror[x] : x \in DOMAIN mirror} THEN <<>> ELSE mirror
    /\ obs' = Ack("error")
    /\ H([a |-> "LoadCut", j |-> j, n |-> Cardinality(S), now |-> now])
    /\ UNCHANGED <<lazy, now, serial, inflight, handles, dump, dumpOf, lastq>>

------------------------------------------------------------------------------
\* mutation of handed-out messages (C10)

Mutate(h) ==
    /\ "mutate" \in OpKinds /\ nops < MaxOps /\ nops' = nops + 1
    /\ h \in DOMAIN handles
    /\ LET hd == handles[h] IN
       cache' = IF Alias # "none" /\ ((Alias = "store" /\ hd.kind = "orig") \/ (Alias = "hit" /\ hd.kind = "hit"))
                THEN [cache EXCEPT ![hd.i] = {IF e.id = hd.id THEN [e EXCEPT !.cont = "mut"] ELSE e : e \in @}]
                ELSE cache
    /\ obs' = Ack("mutated")
    /\ H([a |-> "Mutate", h |-> h, hd |-> handles[h], now |-> now])
    /\ UNCHANGED <<lazy, now, serial, inflight, handles, dump, dumpOf, mirror, lastq>>

------------------------------------------------------------------------------
NoObs == Ack("init")
NoQuery == [n |-> "-", t |-> "-", c |-> "-", f |-> 0, k |-> "std"]

Init ==
    /\ lazy \in LazyTTLs /\ now = 0
    /\ cache = [i \in Insts |-> {}]
    /\ serial = 1 /\ inflight = {} /\ handles = <<>>
    /\ dump = {} /\ dumpOf = 0 /\ mirror = <<>>
    /\ obs = NoObs /\ lastq = NoQuery /\ nops = 0 /\ hist = <<>>

Next ==
    \/ \E i \in Insts, q \in Queries, r \in Resps : Exec(i, q, r)
    \/ \E f \in inflight, r \in Resps, oq \in Queries : RefreshEnd(f, r, oq)
    \/ \E d \in Ticks : Tick(d)
    \/ \E i \in Insts : Dump(i) \/ Load(i)
    \/ \E j \in Insts : \E S \in SUBSET LiveOf(dump) : LoadCut(j, S)
    \/ \E h \in 1..MaxHandles : Mutate(h)

Spec == Init /\ [][Next]_vars

------------------------------------------------------------------------------
\* the properties

Served == obs.res \in {"hit", "stale"}
EntryOf(i, id) == {e \in cache[i] : e.id = id}

\* C04: a cached answer is only served to the question that stored it
NoSharing == Served => SameQuestion(obs.owner, lastq)

\* only std queries are ever answered from cache
BypassRule == (lastq.k # "std") => ~Served

\* C05: TTLs of a fresh hit = max(1, ttl - whole seconds since stored); stale = StaleTTL
TTLRule ==
    \A i \in Insts : \A e \in cache[i] :
        (obs.res = "hit" /\ obs.i = i /\ obs.id = e.id /\ SameQuestion(e.owner, lastq) /\ e.key = KeyOf(lastq)) =>
            \A j \in DOMAIN obs.ttls :
                /\ j \in DOMAIN e.r.ttls
                /\ obs.ttls[j] = Max2(1, e.r.ttls[j] - (now - e.stored))
StaleRule == obs.res = "stale" => (lazy > 0 /\ \A j \in DOMAIN obs.ttls : obs.ttls[j] = StaleTTL)

\* every entry respects the admission rules and lifetime bounds ...
AdmissionRule ==
    \A i \in Insts : \A e \in cache[i] :
        /\ ~e.r.tc /\ e.r.rc \in {0, 2, 3}
        /\ MsgBound(e.r) > 0
        /\ e.msgExp - e.stored <= MsgBound(e.r) \/ e.stored = Epoch
        /\ e.cacheExp - e.stored <= CacheBound(e.r, lazy) \/ e.stored = Epoch
\* ... and nothing is served fresh past its bound, or stale without lazy mode / past the lazy window
NeverServedAfterExpiry ==
    \A i \in Insts : \A e \in cache[i] :
        (Served /\ obs.i = i /\ obs.id = e.id /\ e.key = KeyOf(lastq) /\ e.stored # Epoch) =>
            /\ obs.res = "hit" => now - e.stored < MsgBound(e.r)
            /\ obs.res = "stale" => (lazy > 0 /\ now - e.stored < CacheBound(e.r, lazy))

AtMostOneRefresh == \A f, g \in inflight : (f.i = g.i /\ f.key = g.key) => f = g

\* C10
Isolation == /\ \A i \in Insts : \A e \in cache[i] : e.cont = "orig"
             /\ Served => obs.cont = "orig"
HitId == Served => obs.idok

\* C19: after an intact dump/load into an empty instance both serve the same, now and later
Keys(S) == {e.key : e \in S}
RestartTransparent ==
    mirror # <<>> => \A k \in Keys(cache[mirror[1]]) \cup Keys(cache[mirror[2]]) : [View(mirror[1], k) EXCEPT !.i = 0] = [View(mirror[2], k) EXCEPT !.i = 0]

TypeOK ==
    /\ now \in 0..MaxNow /\ nops \in 0..MaxOps
    /\ \A i \in Insts : \A e, g \in cache[i] : e.key = g.key => e = g

------------------------------------------------------------------------------
\* behaviour export (leg B)
Terminal == nops = MaxOps /\ inflight = {}
Emit == Terminal => PrintT(<<"BEH", ToJson([lazy |-> lazy, steps |-> hist])>>)

ViewNoHist == <<lazy, now, cache, serial, inflight, handles, dump, dumpOf, mirror, obs, lastq, nops>>
=============================================================================
