------------------------------ MODULE PipeConn ------------------------------
(***************************************************************************)
(* pkg/upstream/transport/conn_traditional.go : TraditionalDnsConn         *)
(* (pipelined TCP/DoT connection and "connected" UDP socket)               *)
(*                                                                         *)
(* One action per critical section / channel operation / call on the       *)
(* net connection:                                                         *)
(*   caller c  : Reserve      ReserveNewQuery (queueMu section)            *)
(*               Withdraw     WithdrawReserved                             *)
(*               Start        ExchangeReserved is called                   *)
(*               EarlyClosed  exchange: closeNotify already closed         *)
(*               AddQueue     addQueueC (queueMu section): wire id chosen, *)
(*                            busy ids skipped, waiter registered; the     *)
(*                            reservation BECOMES the queue entry          *)
(*               Write        writeQuery: the bytes are handed to c.Write  *)
(*               WriteDead / WriteFail   c.Write fails; WriteFailClose:    *)
(*                            the caller then calls CloseWithErr           *)
(*               ArmWaiting   c.Write returned (waitingResp CAS +          *)
(*                            SetReadDeadline); the caller reaches the     *)
(*                            final select                                 *)
(*               TakeReply / SeeClose / SeeCtx / Resend   arms of the select*)
(*               DelQueue     deferred deleteQueueC (+ release)            *)
(*               Return       the call returns to its caller               *)
(*   reader    : ArmIdle (SetReadDeadline(idle)), ReadMsg (readResp),      *)
(*               Dispatch (getQueueC + non-blocking hand-off),             *)
(*               ReadFail / ReaderClose (read error -> CloseWithErr),      *)
(*               ReaderDies (read fails because the conn was closed)       *)
(*   any       : ExtClose (Close()), ConnClose (c.Close() inside           *)
(*               CloseWithErr)                                             *)
(*   environment: ServerReply (also duplicates), ServerStray, reorder by   *)
(*               construction (net is a set), Cancel, faults               *)
(*                                                                         *)
(* The hand-off point is `slot[c]`: the caller's reply channel.  The design*)
(* is a 1-buffered channel (Dispatch never blocks, never loses the first   *)
(* reply) and a select that prefers an already delivered reply over the    *)
(* close notification.  Deviation switches mirror suspected defects of the *)
(* pinned code and serve as non-vacuity configurations:                    *)
(*   UNBUFFERED_HANDOFF (D1)  the channel has no buffer: a reply dispatched*)
(*                            before the caller parks is dropped           *)
(*   RANDOM_SELECT      (D2)  the close arm may win over a delivered reply *)
(*   DOUBLE_COUNT       (D5)  the reservation is kept during the exchange  *)
(*                            in addition to the queue entry               *)
(*   DEV (set of names)       further deviations, one per invariant:       *)
(*     "no_skip" "no_delqueue" "dispatch_any" "off_by_one" "double_release"*)
(*     "leak_on_err" "no_wrap_guard"                                       *)
(*                                                                         *)
(* Wire ids: `queue` is a partial function id -> caller, so the same       *)
(* module is used with M = 3,4 (leg A) and M = 65536 (trace validation).   *)
(* 16-bit assumption of C01 ("a late reply arrives before 65536 further    *)
(* queries reuse its id"): AddQueue may not pick an id for which a reply   *)
(* is still in flight, and the server forgets older sends with that id.    *)
(*                                                                         *)
(* Extension points for C07/C08 (later): `rd` already has separate ArmIdle *)
(* / ReadFail / ReaderClose steps and ArmWaiting is its own step; add      *)
(* `armed`/`waitingResp` there.                                            *)
(***************************************************************************)
EXTENDS Integers, FiniteSets, Sequences, TLC, Json

CONSTANTS
    Callers,              \* finite set of integers
    M,                    \* number of wire ids
    MaxCqs,               \* limits explored (Init picks maxCq)
    MaxCalls,             \* calls (reserve attempts) per caller
    StartQids,            \* initial values of the id counter
    Datagrams,            \* subset of BOOLEAN: UDP (resend arm) / stream
    UNBUFFERED_HANDOFF, RANDOM_SELECT, DOUBLE_COUNT, DEV,
    MaxStray, MaxDup, MaxCancel, MaxFault,
    WithHist,
    GenFocus,             \* "none" | "late_fault" (generator only)
    StrictClosed          \* leg A only: TRUE = a closed connection always answers "closed" (smaller state space; the
                          \* late-flag-read relaxation of Reserve is then not explored)

VARIABLES
    maxCq, dgram,         \* configuration
    queue,                \* waiter table: partial function wire id -> caller
    nextQid, reserved,
    closed,               \* closeNotify closed / closed flag set
    netClosed,            \* c.Close() was called on the net connection
    pc, qid, gen, res, ctxDone,
    slot,                 \* caller's reply channel (capacity 1)
    wire,                 \* sends the server has received: [wid, c, g, nr] (nr = replies produced)
    net,                  \* replies in flight towards the connection
    rd,                   \* reader: arm | read | <reply held> | failed | dead
    nstray, ndup, ncancel, nfault,
    arrived,              \* history: first reply to c's current send consumed in time
    resent,               \* history: the resend arm fired for the current call
    spurious,             \* history: a reservation was refused below the limit
    hist

cfgv  == <<maxCq, dgram>>
connv == <<queue, nextQid, reserved, closed, netClosed>>
callv == <<pc, qid, gen, res, ctxDone, slot>>
envv  == <<wire, net, nstray, ndup, ncancel, nfault>>
histv == <<arrived, resent, spurious>>
vars  == <<cfgv, connv, callv, envv, rd, histv, hist>>

NoC == -1
None == [k |-> "none"]
Err(e) == [k |-> "err", e |-> e]
Reply(w, c, g, n) == [k |-> "reply", wid |-> w, c |-> c, g |-> g, n |-> n]
Rd(s) == [k |-> s]
StrayWid == M

H(e) == hist' = IF WithHist THEN Append(hist, e) ELSE hist

Busy(w) == w \in DOMAIN queue
Owner(w) == IF w \in DOMAIN queue THEN queue[w] ELSE NoC
QAdd(w, c) == [x \in DOMAIN queue \cup {w} |-> IF x = w THEN c ELSE queue[x]]
QDel(w) == [x \in DOMAIN queue \ {w} |-> queue[x]]
QLen == Cardinality(DOMAIN queue)

ActivePcs == {"reserved", "started", "registered", "written", "wfailed", "waiting", "unreg"}
Active == {c \in Callers : pc[c] \in ActivePcs}
InUse == reserved + QLen                       \* what ReserveNewQuery computes
Admit == IF "off_by_one" \in DEV THEN InUse <= maxCq ELSE InUse < maxCq

Init ==
    /\ maxCq \in MaxCqs /\ dgram \in Datagrams
    /\ queue = << >> /\ nextQid \in StartQids /\ reserved = 0
    /\ closed = FALSE /\ netClosed = FALSE
    /\ pc = [c \in Callers |-> "idle"] /\ qid = [c \in Callers |-> 0]
    /\ gen = [c \in Callers |-> 0] /\ res = [c \in Callers |-> None]
    /\ ctxDone = [c \in Callers |-> FALSE] /\ slot = [c \in Callers |-> None]
    /\ wire = {} /\ net = {} /\ rd = Rd("arm")
    /\ nstray = 0 /\ ndup = 0 /\ ncancel = 0 /\ nfault = 0
    /\ arrived = [c \in Callers |-> None] /\ resent = [c \in Callers |-> FALSE]
    /\ spurious = FALSE
    /\ hist = << >>

------------------------------------------------------------------------------
\* callers

\* ReserveNewQuery = (1) read of the closed flag, (2) later, under queueMu, the count.  (2) is the action (it is
\* where the driver logs the call); (1) happened at some earlier instant, so "closed" is possible only if the
\* connection is closed by now, while "ok"/"full" may also be returned shortly after a close (the flag was read
\* before it) — C09 constrains only the count: "ok" iff capacity is left, "full" iff not.
\* A refused attempt counts as a call (bounds the model).
Reserve(c, o) ==
    /\ pc[c] = "idle" /\ gen[c] < MaxCalls
    /\ CASE o = "closed" -> closed /\ gen' = [gen EXCEPT ![c] = @ + 1] /\ UNCHANGED <<pc, reserved, spurious>>
         [] o = "ok"     -> Admit /\ reserved' = reserved + 1 /\ pc' = [pc EXCEPT ![c] = "reserved"]
                            /\ UNCHANGED <<gen, spurious>>
         [] o = "full"   -> ~Admit /\ gen' = [gen EXCEPT ![c] = @ + 1]
                            /\ spurious' = (spurious \/ Cardinality(Active) < maxCq)
                            /\ UNCHANGED <<pc, reserved>>
    /\ H([a |-> "Reserve", c |-> c, o |-> o])
    /\ UNCHANGED <<cfgv, queue, nextQid, closed, netClosed, qid, res, ctxDone, slot, envv, rd, arrived, resent>>

Withdraw(c) ==
    /\ pc[c] = "reserved"
    /\ pc' = [pc EXCEPT ![c] = "idle"] /\ gen' = [gen EXCEPT ![c] = @ + 1]
    /\ reserved' = reserved - (IF "double_release" \in DEV THEN 2 ELSE 1)
    /\ H([a |-> "Withdraw", c |-> c])
    /\ UNCHANGED <<cfgv, queue, nextQid, closed, netClosed, qid, res, ctxDone, slot, envv, rd, histv>>

Start(c) ==
    /\ pc[c] = "reserved"
    /\ pc' = [pc EXCEPT ![c] = "started"]
    /\ H([a |-> "Start", c |-> c, g |-> gen[c]])
    /\ UNCHANGED <<cfgv, connv, qid, gen, res, ctxDone, slot, envv, rd, histv>>

EarlyClosed(c) ==
    /\ pc[c] = "started" /\ closed
    /\ pc' = [pc EXCEPT ![c] = "done"] /\ res' = [res EXCEPT ![c] = Err("closed")]
    /\ reserved' = IF "leak_on_err" \in DEV THEN reserved ELSE reserved - 1
    /\ UNCHANGED hist
    /\ UNCHANGED <<cfgv, queue, nextQid, closed, netClosed, qid, gen, ctxDone, slot, envv, rd, histv>>

\* smallest k such that nextQid+k is free (addQueueC skips busy ids)
SkipK == IF "no_skip" \in DEV THEN 0
         ELSE CHOOSE k \in 0..QLen : ~Busy((nextQid + k) % M) /\ \A j \in 0..(k - 1) : Busy((nextQid + j) % M)

Held == IF rd.k = "reply" THEN {rd} ELSE {}
IsCurrent(s) == pc[s.c] \in {"written", "wfailed", "waiting", "unreg"} /\ gen[s.c] = s.g /\ qid[s.c] = s.wid

AddQueue(c) ==
    /\ pc[c] = "started"
    /\ QLen < M
    /\ LET w == (nextQid + SkipK) % M IN
        /\ netClosed \/ "no_wrap_guard" \in DEV \/ \A r \in net \cup Held : r.wid # w   \* 16-bit assumption
        /\ queue' = QAdd(w, c)
        /\ nextQid' = (nextQid + SkipK + 1) % M
        /\ qid' = [qid EXCEPT ![c] = w]
        /\ wire' = IF "no_wrap_guard" \in DEV THEN wire ELSE {s \in wire : s.wid # w \/ IsCurrent(s)}
    /\ reserved' = IF DOUBLE_COUNT THEN reserved ELSE reserved - 1
    /\ pc' = [pc EXCEPT ![c] = "registered"]
    /\ UNCHANGED hist
    /\ UNCHANGED <<cfgv, closed, netClosed, gen, res, ctxDone, slot, net, nstray, ndup, ncancel, nfault, rd, histv>>

Write(c) ==
    /\ pc[c] = "registered" /\ ~netClosed
    /\ pc' = [pc EXCEPT ![c] = "written"]
    /\ wire' = wire \cup {[wid |-> qid[c], c |-> c, g |-> gen[c], nr |-> 0]}
    /\ H([a |-> "Write", c |-> c, g |-> gen[c]])
    /\ UNCHANGED <<cfgv, connv, qid, gen, res, ctxDone, slot, net, nstray, ndup, ncancel, nfault, rd, histv>>

\* guard of C02: a LOCAL close (Close(), a failed Write) that overtakes the reader between Read and
\* hand-off is outside the quantifier; a peer-caused EOF/error is seen by the reader after the hand-off
LocalClose == arrived' = [c \in Callers |-> IF rd.k = "reply" /\ arrived[c] = rd THEN None ELSE arrived[c]]

FailTo(c, e) ==
    /\ pc' = [pc EXCEPT ![c] = "unreg"] /\ res' = [res EXCEPT ![c] = Err(e)]

\* Write on a connection that is already closed
WriteDead(c) ==
    /\ pc[c] = "registered" /\ netClosed
    /\ pc' = [pc EXCEPT ![c] = "wfailed"] /\ res' = [res EXCEPT ![c] = Err("write")]
    /\ UNCHANGED hist
    /\ UNCHANGED <<cfgv, connv, qid, gen, ctxDone, slot, envv, rd, histv>>

\* the pending Write fails (fault, or the connection was closed meanwhile); the server never saw the bytes
WriteFail(c) ==
    /\ pc[c] = "written"
    /\ LET s == [wid |-> qid[c], c |-> c, g |-> gen[c], nr |-> 0] IN
        /\ s \in wire /\ wire' = wire \ {s}
        /\ \A r \in net \cup Held : ~(r.c = c /\ r.g = gen[c])
    /\ \/ netClosed /\ UNCHANGED nfault
       \/ ~netClosed /\ nfault < MaxFault /\ nfault' = nfault + 1
    /\ pc' = [pc EXCEPT ![c] = "wfailed"] /\ res' = [res EXCEPT ![c] = Err("write")]
    /\ H([a |-> "WriteFail", c |-> c])
    /\ UNCHANGED <<cfgv, connv, qid, gen, ctxDone, slot, net, nstray, ndup, ncancel, rd, histv>>

\* ... and the caller closes the connection (CloseWithErr) before it returns the error
WriteFailClose(c) ==
    /\ pc[c] = "wfailed"
    /\ pc' = [pc EXCEPT ![c] = "unreg"] /\ closed' = TRUE
    /\ LocalClose /\ UNCHANGED hist
    /\ UNCHANGED <<cfgv, queue, nextQid, reserved, netClosed, qid, gen, res, ctxDone, slot, envv, rd, resent, spurious>>

\* c.Write returned nil; the caller proceeds to its final select
ArmWaiting(c) ==
    /\ pc[c] = "written"
    /\ pc' = [pc EXCEPT ![c] = "waiting"]
    /\ H([a |-> "ArmWaiting", c |-> c])
    /\ UNCHANGED <<cfgv, connv, qid, gen, res, ctxDone, slot, envv, rd, histv>>

TakeReply(c) ==
    /\ pc[c] = "waiting" /\ slot[c].k = "reply"
    /\ pc' = [pc EXCEPT ![c] = "unreg"] /\ res' = [res EXCEPT ![c] = slot[c]]
    /\ slot' = [slot EXCEPT ![c] = None]
    /\ UNCHANGED hist
    /\ UNCHANGED <<cfgv, connv, qid, gen, ctxDone, envv, rd, histv>>

\* design: an already delivered reply is preferred over the close notification
SeeClose(c) ==
    /\ pc[c] = "waiting" /\ closed
    /\ RANDOM_SELECT \/ slot[c].k = "none"
    /\ FailTo(c, "closed")
    /\ UNCHANGED hist
    /\ UNCHANGED <<cfgv, connv, qid, gen, ctxDone, slot, envv, rd, histv>>

SeeCtx(c) ==
    /\ pc[c] = "waiting" /\ ctxDone[c]
    /\ FailTo(c, "ctx")
    /\ UNCHANGED hist
    /\ UNCHANGED <<cfgv, connv, qid, gen, ctxDone, slot, envv, rd, histv>>

\* UDP: the 1 s ticker fired, the same query is written again (same wire id)
Resend(c) ==
    /\ pc[c] = "waiting" /\ dgram /\ ~netClosed
    /\ resent' = [resent EXCEPT ![c] = TRUE]
    /\ UNCHANGED hist
    /\ UNCHANGED <<cfgv, connv, callv, envv, rd, arrived, spurious>>

DelQueue(c) ==
    /\ pc[c] = "unreg"
    /\ queue' = IF "no_delqueue" \in DEV THEN queue ELSE QDel(qid[c])
    /\ slot' = [slot EXCEPT ![c] = None]
    /\ reserved' = IF DOUBLE_COUNT THEN reserved - 1 ELSE reserved
    /\ pc' = [pc EXCEPT ![c] = "done"]
    /\ UNCHANGED hist
    /\ UNCHANGED <<cfgv, nextQid, closed, netClosed, qid, gen, res, ctxDone, envv, rd, histv>>

Return(c) ==
    /\ pc[c] = "done"
    /\ H([a |-> "Return", c |-> c, g |-> gen[c], r |-> res[c].k,
          n |-> IF res[c].k = "reply" THEN res[c].n ELSE -1,
          e |-> IF res[c].k = "err" THEN res[c].e ELSE ""])
    /\ pc' = [pc EXCEPT ![c] = "idle"] /\ gen' = [gen EXCEPT ![c] = @ + 1]
    /\ res' = [res EXCEPT ![c] = None] /\ ctxDone' = [ctxDone EXCEPT ![c] = FALSE]
    /\ arrived' = [arrived EXCEPT ![c] = None] /\ resent' = [resent EXCEPT ![c] = FALSE]
    /\ UNCHANGED <<cfgv, connv, qid, slot, envv, rd, spurious>>

------------------------------------------------------------------------------
\* reader goroutine

ArmIdle ==
    /\ rd.k = "arm" /\ rd' = Rd("read")
    /\ H([a |-> "ArmIdle"])
    /\ UNCHANGED <<cfgv, connv, callv, envv, histv>>

\* the reply r has been returned by Read (last byte)
Consume(r) ==
    /\ rd.k = "read" /\ ~netClosed
    /\ rd' = r
    /\ arrived' = [c \in Callers |->
          IF /\ arrived[c].k = "none" /\ r.c = c /\ r.g = gen[c] /\ pc[c] \in {"written", "waiting"}
             /\ Owner(r.wid) = c /\ ~ctxDone[c] /\ ~closed
          THEN r ELSE arrived[c]]

ReadMsg(r) ==
    /\ r \in net /\ net' = net \ {r}
    /\ Consume(r)
    /\ H([a |-> "ReadMsg", wid |-> r.wid, c |-> r.c, g |-> r.g, n |-> r.n])
    /\ UNCHANGED <<cfgv, connv, callv, wire, nstray, ndup, ncancel, nfault, resent, spurious>>

Target(w) ==
    IF Owner(w) # NoC THEN Owner(w)
    ELSE IF "dispatch_any" \in DEV /\ \E c \in Callers : pc[c] = "waiting"
         THEN CHOOSE c \in Callers : pc[c] = "waiting"
         ELSE NoC

Dispatch ==
    /\ rd.k = "reply"
    /\ LET w == Target(rd.wid) IN
         IF w = NoC THEN UNCHANGED slot
         ELSE IF UNBUFFERED_HANDOFF /\ pc[w] # "waiting" THEN UNCHANGED slot       \* nobody is receiving: dropped
         ELSE IF slot[w].k = "none" THEN slot' = [slot EXCEPT ![w] = rd]
         ELSE UNCHANGED slot
    /\ rd' = Rd("arm")
    /\ H([a |-> "Dispatch"])
    /\ UNCHANGED <<cfgv, connv, pc, qid, gen, res, ctxDone, envv, histv>>

\* EOF / read error / read timeout injected by the environment
ReadFail ==
    /\ rd.k = "read" /\ ~netClosed /\ nfault < MaxFault
    /\ rd' = Rd("failed") /\ nfault' = nfault + 1
    /\ H([a |-> "ReadFail"])
    /\ UNCHANGED <<cfgv, connv, callv, wire, net, nstray, ndup, ncancel, histv>>

ReaderClose ==
    /\ rd.k = "failed"
    /\ rd' = Rd("dead") /\ closed' = TRUE
    /\ H([a |-> "ReaderClose"])
    /\ UNCHANGED <<cfgv, queue, nextQid, reserved, netClosed, callv, envv, histv>>

ReaderDies ==
    /\ rd.k \in {"arm", "read"} /\ netClosed
    /\ rd' = Rd("dead")
    /\ UNCHANGED hist
    /\ UNCHANGED <<cfgv, connv, callv, envv, histv>>

\* c.Close() inside CloseWithErr (after closeNotify was closed)
ConnClose ==
    /\ closed /\ ~netClosed /\ netClosed' = TRUE
    /\ UNCHANGED hist
    /\ UNCHANGED <<cfgv, queue, nextQid, reserved, closed, callv, envv, rd, histv>>

\* Close() called from outside
ExtClose ==
    /\ ~closed /\ nfault < MaxFault
    /\ closed' = TRUE /\ nfault' = nfault + 1
    /\ H([a |-> "ExtClose"]) /\ LocalClose
    /\ UNCHANGED <<cfgv, queue, nextQid, reserved, netClosed, callv, wire, net, nstray, ndup, ncancel, rd, resent, spurious>>

------------------------------------------------------------------------------
\* environment

Bump(s) == (wire \ {s}) \cup {[s EXCEPT !.nr = @ + 1]}

ServerReply(s) ==
    /\ s \in wire /\ ~netClosed
    /\ s.nr = 0 \/ ndup < MaxDup
    /\ ndup' = IF s.nr = 0 THEN ndup ELSE ndup + 1
    /\ net' = net \cup {Reply(s.wid, s.c, s.g, s.nr)}
    /\ wire' = Bump(s)
    /\ UNCHANGED hist
    /\ UNCHANGED <<cfgv, connv, callv, nstray, ncancel, nfault, rd, histv>>

\* a reply whose id matches no outstanding query
ServerStray ==
    /\ nstray < MaxStray /\ ~netClosed
    /\ net' = net \cup {Reply(StrayWid, NoC, 0, nstray)}
    /\ nstray' = nstray + 1
    /\ UNCHANGED hist
    /\ UNCHANGED <<cfgv, connv, callv, wire, ndup, ncancel, nfault, rd, histv>>

Cancel(c) ==
    /\ pc[c] \in {"started", "registered", "written", "waiting"} /\ ~ctxDone[c]
    /\ ncancel < MaxCancel
    /\ ctxDone' = [ctxDone EXCEPT ![c] = TRUE] /\ ncancel' = ncancel + 1
    /\ H([a |-> "Cancel", c |-> c])
    /\ UNCHANGED <<cfgv, connv, pc, qid, gen, res, slot, wire, net, nstray, ndup, nfault, rd, histv>>

------------------------------------------------------------------------------
CallerStep(c) ==
    \/ AddQueue(c) \/ EarlyClosed(c) \/ Write(c) \/ WriteDead(c) \/ WriteFailClose(c) \/ ArmWaiting(c)
    \/ TakeReply(c) \/ SeeClose(c) \/ SeeCtx(c) \/ DelQueue(c) \/ Return(c)

ReaderStep == ArmIdle \/ Dispatch \/ ReaderClose \/ ReaderDies \/ ConnClose

Next ==
    \/ \E c \in Callers :
         \/ \E o \in {"ok", "full", "closed"} : ((StrictClosed /\ closed) => o = "closed") /\ Reserve(c, o)
         \/ Withdraw(c) \/ Start(c) \/ CallerStep(c) \/ WriteFail(c)
         \/ (Resend(c) /\ ~resent[c])
         \/ Cancel(c)
    \/ ReaderStep \/ ReadFail \/ ExtClose
    \/ \E r \in net : ReadMsg(r)
    \/ \E s \in wire : ServerReply(s)
    \/ ServerStray

Spec == Init /\ [][Next]_vars

\* callers and the reader run; pending Writes return; the network delivers what it holds
FairSpec == Spec /\ \A c \in Callers : WF_vars(CallerStep(c))
                 /\ WF_vars(ReaderStep)

------------------------------------------------------------------------------
\* C01
OwnReply ==
    \A c \in Callers : (pc[c] \in {"unreg", "done"} /\ res[c].k = "reply") =>
        (res[c].c = c /\ res[c].g = gen[c] /\ res[c].wid = qid[c])
NoStrayDelivered ==
    \A c \in Callers : /\ res[c].k = "reply" => res[c].c # NoC
                       /\ slot[c].k = "reply" => slot[c].c # NoC

\* C02
NoLoss ==
    \A c \in Callers : (pc[c] = "done" /\ arrived[c].k = "reply" /\ ~ctxDone[c]) => res[c] = arrived[c]
ArrivedLeadsToDone == \A c \in Callers : (arrived[c].k = "reply") ~> (pc[c] = "done")

\* C09
Limit == Cardinality(Active) <= maxCq
ExactAccounting == InUse = Cardinality(Active)
NoUnderflow == reserved >= 0
NoSpuriousRefusal == ~spurious
Quiescent == \A c \in Callers : pc[c] \in {"idle", "done"}
QuiescentFree == Quiescent => (reserved = 0 /\ queue = << >>)

C01Inv == OwnReply /\ NoStrayDelivered
C02Inv == NoLoss
C09Inv == Limit /\ ExactAccounting /\ NoUnderflow /\ NoSpuriousRefusal /\ QuiescentFree
PipeInv == C01Inv /\ C02Inv /\ C09Inv

TypeOK ==
    /\ pc \in [Callers -> {"idle"} \cup ActivePcs \cup {"done"}]
    /\ DOMAIN queue \subseteq 0..(M - 1)
    /\ nextQid \in 0..(M - 1)
    /\ rd.k \in {"arm", "read", "reply", "failed", "dead"}
    /\ netClosed => closed

ASSUME \A q \in MaxCqs : q <= M

------------------------------------------------------------------------------
\* behaviour export (leg B): the schedule of every complete run
Terminal == \A c \in Callers : pc[c] = "idle" /\ gen[c] = MaxCalls
Emit == Terminal => PrintT(<<"BEH", ToJson([maxCq |-> maxCq, dgram |-> dgram, qid0 |-> 0, steps |-> hist])>>)
\* generator focus "late_fault": connection faults only directly after a reply was consumed in time
\* (C02: "EOF / read error directly after the reply"), so that random walks do not end by an early close
FaultOK == GenFocus # "late_fault" \/ \E c \in Callers : arrived[c].k = "reply"
GenNext ==
    /\ ~Terminal
    /\ \/ \E c \in Callers :
             \/ \E o \in {"ok", "full", "closed"} : (closed => o = "closed") /\ Reserve(c, o)
             \/ Withdraw(c) \/ Start(c) \/ CallerStep(c) \/ Cancel(c)
             \/ (FaultOK /\ WriteFail(c))
       \/ ReaderStep
       \/ (FaultOK /\ (ReadFail \/ ExtClose))
       \/ \E r \in net : ReadMsg(r)
       \/ \E s \in wire : ServerReply(s)
       \/ ServerStray
GenSpec == Init /\ [][GenNext]_vars

ViewNoHist == <<cfgv, connv, callv, envv, rd, histv>>
=============================================================================
