\* non-vacuity: Masked() omitted => PipelineOK must fail
SPECIFICATION Spec
CONSTANTS
  W = 4
  L4 = 1
  B4s = {1}
  Fams = {"v4", "v6"}
  HostBits = TRUE
  MaxLen = 2
  KeepRule = "shorter"
  DoMask = FALSE
  GenOnly = FALSE
  EmitAll = FALSE
INVARIANTS PipelineOK
CHECK_DEADLOCK FALSE
