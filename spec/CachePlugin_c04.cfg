\* leg A, C04: 2 names x 3 types x 2 classes x 8 flag combinations, bypass kinds, <= 3 operations
SPECIFICATION Spec
CONSTANTS
  Names = {"n1", "n2"}
  Types = {"t1", "t2", "t3"}
  Classes = {"c1", "c2"}
  Flags = {0, 1, 2, 3, 4, 5, 6, 7}
  Kinds = {"std"}
  KeyFields <- AllKey
  Resps <- RespsOne
  LazyTTLs = {0}
  Ticks = {1}
  MaxNow = 0
  MaxOps = 3
  NxMax = 30
  SfMax = 5
  EmptyMax = 300
  StaleTTL = 5
  TTLMode = "stored"
  Admit = "rule"
  Dedup = TRUE
  RefreshOwner = "asked"
  Alias = "none"
  DumpFields <- AllDump
  Insts = {1}
  OpKinds = {"exec"}
  MaxHandles = 0
  WithHist = FALSE
VIEW ViewNoHist
INVARIANTS TypeOK NoSharing BypassRule TTLRule StaleRule AdmissionRule NeverServedAfterExpiry AtMostOneRefresh Isolation HitId RestartTransparent
CHECK_DEADLOCK FALSE
