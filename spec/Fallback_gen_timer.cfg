\* leg B generator: every complete schedule (both publication orders) with its expected result
SPECIFICATION Spec
CONSTANTS
  Orders = {"queue_first", "signal_first"}
  Standbys = {TRUE, FALSE}
  TimerMays = {TRUE}
  LazyCaller = FALSE
  EagerCaller = TRUE
  EnvCancel = FALSE
  EnvDeadline = FALSE
  WithHist = TRUE
INVARIANTS Emit
CHECK_DEADLOCK FALSE
