\* leg B generator: every complete schedule with a caller that reaches its select only after both workers finished; without timer/cancel (pure ordering; exhaustive replay) (both publication orders) with its expected result
SPECIFICATION Spec
CONSTANTS
  Orders = {"queue_first", "signal_first"}
  Standbys = {TRUE, FALSE}
  TimerMays = {FALSE}
  LazyCaller = TRUE
  EagerCaller = FALSE
  EnvCancel = FALSE
  EnvDeadline = FALSE
  WithHist = TRUE
INVARIANTS Emit
CHECK_DEADLOCK FALSE
