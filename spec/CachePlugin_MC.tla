--------------------------- MODULE CachePlugin_MC ---------------------------
(* constant definitions for the cfgs of CachePlugin (TLC cfg files cannot write records) *)
EXTENDS CachePlugin

AllKey == {"name", "type", "class", "ad", "cd", "do"}
AllDump == {"stored", "msgexp", "cacheexp"}
R(rc, tc, nan, ttls, opt) == [rc |-> rc, tc |-> tc, nan |-> nan, ttls |-> ttls, opt |-> opt]

\* C04: one plain answer (its identity is the serial)
RespsOne == {R(0, FALSE, 1, <<300>>, FALSE)}

\* C05: rcodes {0,2,3,5}, TC, 0..3 records over the sections, OPT, TTLs around the bounds
RespsC05 ==
    {R(0, FALSE, 1, <<8>>, FALSE), R(0, FALSE, 2, <<8, 20>>, TRUE), R(0, FALSE, 1, <<20, 8, 40>>, FALSE),
     R(0, FALSE, 1, <<0>>, FALSE), R(0, FALSE, 1, <<8, 0>>, FALSE),
     R(0, TRUE, 1, <<8>>, FALSE),
     R(0, FALSE, 0, <<>>, FALSE), R(0, FALSE, 0, <<8>>, TRUE), R(0, FALSE, 0, <<400>>, FALSE), R(0, FALSE, 0, <<0>>, FALSE),
     R(3, FALSE, 0, <<40>>, FALSE), R(3, FALSE, 0, <<8>>, FALSE), R(3, FALSE, 0, <<>>, FALSE), R(3, TRUE, 0, <<40>>, FALSE),
     R(2, FALSE, 0, <<>>, FALSE), R(2, FALSE, 0, <<40>>, TRUE), R(2, FALSE, 0, <<3>>, FALSE),
     R(5, FALSE, 0, <<>>, FALSE), R(5, FALSE, 1, <<40>>, FALSE)}

RespsC05small ==
    {R(0, FALSE, 1, <<8, 20>>, TRUE), R(0, FALSE, 1, <<0>>, FALSE), R(0, TRUE, 1, <<8>>, FALSE),
     R(0, FALSE, 0, <<400>>, FALSE), R(3, FALSE, 0, <<40>>, FALSE), R(3, FALSE, 0, <<8>>, FALSE), R(2, FALSE, 0, <<>>, FALSE),
     R(5, FALSE, 1, <<40>>, FALSE)}

RespsC10 == {R(0, FALSE, 3, <<300, 300, 300, 300, 300, 300>>, TRUE)}

\* C05: answers kept longer than their own records' TTL (the clamp at 1 is reachable: elapsed = ttl, ttl + 1)
RespsClamp == {R(3, FALSE, 0, <<8>>, FALSE), R(2, FALSE, 0, <<3>>, FALSE), R(3, FALSE, 0, <<2, 12>>, FALSE)}

\* rc = -1: `next` produces no answer at all (upstream failure / a has_resp guard in the background chain)
NoAnswer == R(-1, FALSE, 0, <<>>, FALSE)
RespsC10L == {R(0, FALSE, 3, <<8, 8, 8, 8, 8, 8>>, TRUE), NoAnswer}
RespsC04L == {R(0, FALSE, 1, <<8>>, FALSE)}

RespsC19 == {R(0, FALSE, 1, <<8, 20>>, FALSE), R(3, FALSE, 0, <<40>>, FALSE)}
=============================================================================
