------------------------ MODULE UdpFallbackSeq_Trace ------------------------
(***************************************************************************)
(* Leg C for C17, several exchanges on one real upstream                   *)
(* (upstream.NewUpstream("udp://127.x.y.z:p")), each with its own question,*)
(* harness UDP server (truncated or not, per exchange) and harness TCP server    *)
(* (answers late, in order per connection) on the same address.            *)
(* Contract mode: Matching = TRUE (the reply to query y can only be handed *)
(* to exchange y), ReuseBusy = TRUE (which connection the client uses is   *)
(* its own business).                                                      *)
(*   Seq(tc)                new upstream (reset); tc[x] = is x's own UDP   *)
(*                          reply truncated                                *)
(*   UdpDup(y)              UDP server sent a second copy of the reply to  *)
(*                          the finished exchange y (y's wire id)          *)
(*   SClose(c) CClosed(c)   TCP server closed its side of idle connection  *)
(*                          c / saw the client close c (= noticed)         *)
(*   Start(x)               ExchangeContext(x) called                      *)
(*   UdpQuery(x, same) UdpReply(x)   UDP server saw x's query / answered   *)
(*   TcpAccept(c)           TCP server accepted connection c               *)
(*   TcpQuery(c, x, same)   TCP server read x's query on c                 *)
(*   Cancel(x)              the harness cancelled x's context              *)
(*   TcpReply(c, y)         TCP server wrote the reply to y's query on c   *)
(*   Result(x, kind, for, idok)   ExchangeContext(x) returned: kind = tcp  *)
(*                          (bytes of the TCP reply to query `for`) | err  *)
(*                          | udp | other                                  *)
(***************************************************************************)
EXTENDS UdpFallbackSeq, IOUtils

VARIABLE l
Trace == ndJsonDeserialize(IOEnv.TRACE_FILE)
tvars == <<vars, l>>
Ev == Trace[l]
IsEvent(e) == l <= Len(Trace) /\ Ev.ev = e /\ l' = l + 1

TraceInit == l = 1 /\ Init

Reset ==
    /\ IsEvent("Seq")
    /\ tcx' = [x \in X |-> IF x <= Len(Ev.tc) THEN Ev.tc[x] ELSE TRUE]
    /\ phase' = [x \in X |-> "new"] /\ cancelled' = {} /\ nconn' = 0
    /\ waiting' = [c \in C |-> 0] /\ idle' = {} /\ dead' = {} /\ sclosed' = {} /\ noticed' = {}
    /\ srvq' = [c \in C |-> <<>>]
    /\ result' = [x \in X |-> "none"] /\ resFor' = [x \in X |-> 0] /\ resent' = 0 /\ ndup' = 0
    /\ tries' = [x \in X |-> 0] /\ hitNoticed' = [x \in X |-> FALSE] /\ hist' = <<>>

Logged ==
    \/ IsEvent("Start") /\ Ev.x \in X /\ Start(Ev.x)
    \/ IsEvent("UdpQuery") /\ Ev.x \in X /\ Ev.same /\ phase[Ev.x] # "new" /\ UNCHANGED vars
    \/ IsEvent("UdpReply") /\ Ev.x \in X /\ phase[Ev.x] # "new" /\ (UdpDone(Ev.x) \/ UNCHANGED vars)
    \/ IsEvent("UdpDup") /\ Ev.y \in X /\ \E x \in X : UdpDup(Ev.y, x)
    \/ IsEvent("TcpAccept") /\ Ev.c = nconn + 1 /\ Accept
    \/ IsEvent("TcpQuery") /\ Ev.x \in X /\ Ev.c \in C /\ Ev.same /\ (Send(Ev.x, Ev.c) \/ Resend(Ev.x, Ev.c))
    \/ IsEvent("Cancel") /\ Ev.x \in X /\ Cancel(Ev.x)
    \/ IsEvent("TcpReply") /\ Ev.c \in C /\ srvq[Ev.c] # <<>> /\ Head(srvq[Ev.c]) = Ev.y /\ Answer(Ev.c)
    \/ IsEvent("SClose") /\ Ev.c \in C /\ ServerClose(Ev.c)
    \/ IsEvent("CClosed") /\ Ev.c \in C /\ Notice(Ev.c)
    \/ /\ IsEvent("Result") /\ Ev.x \in X /\ phase[Ev.x] = "done" /\ result[Ev.x] = Ev.kind
       /\ (Ev.kind \in {"tcp", "udp"} => Ev["for"] = Ev.x /\ Ev.idok)
       /\ UNCHANGED vars

\* an attempt on a pooled connection the server has closed leaves no event at the servers
Silent == l <= Len(Trace) /\ UNCHANGED l /\ \E x \in X, c \in C : SendDead(x, c)

TraceNext == (Reset \/ Logged \/ Silent) /\ C17SeqInv'
TraceSpec == TraceInit /\ [][TraceNext]_tvars

HWM == TLCSet(1, IF TLCGet(1) < l THEN l ELSE TLCGet(1))
HWMInit == TLCSet(1, 0)
ASSUME HWMInit
Accepted == PrintT(<<"HWM", TLCGet(1), Len(Trace)>>)
=============================================================================
