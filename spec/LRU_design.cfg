\* extra (pkg/lru): exhaustive, 3 keys, max 1..2, 5 calls
SPECIFICATION Spec
CONSTANTS
  Keys = {1, 2, 3}
  Maxes = {1, 2}
  MaxOps = 5
  WithHist = FALSE
  CleanSets = {{}, {1}, {2}, {3}, {1, 2}, {1, 3}, {2, 3}, {1, 2, 3}}
INVARIANTS Bounded NoDup EvictedGone
VIEW ViewNoHist
CHECK_DEADLOCK FALSE
