\* leg A (quick+thorough): every ordered list of <= 3 masked prefixes (both notations, both block positions), any Append/Sort interleaving
SPECIFICATION Spec
CONSTANTS
  W = 4
  L4 = 1
  B4s = {0, 1}
  Fams = {"v4", "v6"}
  HostBits = FALSE
  MaxLen = 3
  KeepRule = "shorter"
  DoMask = TRUE
  GenOnly = FALSE
  EmitAll = FALSE
VIEW View
INVARIANTS TypeOK PipelineOK MappedSame SortedDisjoint
CHECK_DEADLOCK FALSE
