SPECIFICATION TraceSpec
CONSTANTS
  Schemes = {"udp"}
  Ports = {53}
  TrimCut = 1
  DialPortRule = "url"
  PortCheck = TRUE
  Export = FALSE
CONSTRAINT HWM
POSTCONDITION Accepted
CHECK_DEADLOCK FALSE
