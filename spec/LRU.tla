------------------------------- MODULE LRU -------------------------------
(***************************************************************************)
(* Extra coverage for C11: pkg/lru/lru.go (the list behind                 *)
(* pkg/concurrent_lru).  A sequential least-recently-used queue:           *)
(*   q        entries [k, v], least recently used first                    *)
(*   Add      existing key: new value, becomes most recent; new key: the   *)
(*            oldest entries are evicted (onEvict) until there is room     *)
(*   Get      a hit makes the entry most recent                            *)
(*   Del      removes (onEvict)          PopOldest removes the oldest      *)
(*   Clean(S) removes every entry whose key is in S, oldest first          *)
(*            (onEvict), answers how many                                  *)
(*   Flush    forgets everything (no callback)     Len                     *)
(* One action per method; `out` is what the method answers, `ev` the       *)
(* onEvict callbacks it makes (in order).  Used as generator for leg B:    *)
(* every behaviour ends with the final queue order (drain).                *)
(***************************************************************************)
EXTENDS Integers, Sequences, FiniteSets, TLC, Json

CONSTANTS Keys, Maxes, MaxOps, WithHist,
          CleanSets   \* key sets tried as Clean predicates

VARIABLES max, q, n, out, ev, hist

vars == <<max, q, n, out, ev, hist>>

Idx(k) == {i \in 1..Len(q) : q[i].k = k}
Has(k) == Idx(k) # {}
Pos(k) == CHOOSE i \in Idx(k) : TRUE
Without(i) == SubSeq(q, 1, i - 1) \o SubSeq(q, i + 1, Len(q))
RECURSIVE Filter(_, _)
Filter(s, S) == IF s = <<>> THEN <<>>
                ELSE (IF Head(s).k \in S THEN <<>> ELSE <<Head(s)>>) \o Filter(Tail(s), S)
Removed(s, S) == Filter(s, Keys \ S)

H(rec) == hist' = IF WithHist THEN Append(hist, rec) ELSE hist
Step(op, k, S) == [op |-> op, k |-> k, v |-> n + 1, s |-> S, out |-> out', ev |-> ev']

Init ==
    /\ max \in Maxes /\ q = <<>> /\ n = 0 /\ out = 0 /\ ev = <<>> /\ hist = <<>>

Add(k) ==
    /\ IF Has(k)
       THEN /\ q' = Append(Without(Pos(k)), [k |-> k, v |-> n + 1])
            /\ ev' = <<>>
       ELSE LET drop == IF Len(q) >= max THEN Len(q) - max + 1 ELSE 0 IN
            /\ q' = Append(SubSeq(q, drop + 1, Len(q)), [k |-> k, v |-> n + 1])
            /\ ev' = SubSeq(q, 1, drop)
    /\ out' = 0
    /\ H(Step("add", k, {}))

Get(k) ==
    /\ IF Has(k)
       THEN /\ q' = Append(Without(Pos(k)), q[Pos(k)])
            /\ out' = q[Pos(k)].v
       ELSE /\ q' = q /\ out' = 0
    /\ ev' = <<>>
    /\ H(Step("get", k, {}))

Del(k) ==
    /\ IF Has(k)
       THEN q' = Without(Pos(k)) /\ ev' = <<q[Pos(k)]>>
       ELSE q' = q /\ ev' = <<>>
    /\ out' = 0
    /\ H(Step("del", k, {}))

PopOldest ==
    /\ IF q # <<>>
       THEN q' = Tail(q) /\ out' = Head(q).v
       ELSE q' = q /\ out' = 0
    /\ ev' = <<>>
    /\ H(Step("pop", 0, {}))

Clean(S) ==
    /\ q' = Filter(q, S)
    /\ ev' = Removed(q, S)
    /\ out' = Len(q) - Len(q')
    /\ H(Step("clean", 0, S))

Flush ==
    /\ q' = <<>> /\ ev' = <<>> /\ out' = 0
    /\ H(Step("flush", 0, {}))

LenOp ==
    /\ q' = q /\ ev' = <<>> /\ out' = Len(q)
    /\ H(Step("len", 0, {}))

Next ==
    /\ n < MaxOps
    /\ n' = n + 1
    /\ UNCHANGED max
    /\ \/ \E k \in Keys : Add(k) \/ Get(k) \/ Del(k)
       \/ PopOldest \/ Flush \/ LenOp
       \/ \E S \in CleanSets : Clean(S)

Spec == Init /\ [][Next]_vars

Bounded == Len(q) <= max
NoDup == \A i, j \in 1..Len(q) : q[i].k = q[j].k => i = j
\* what a method reports as evicted is gone afterwards
EvictedGone == \A i \in 1..Len(ev) : \A j \in 1..Len(q) : q[j] # ev[i]

Emit == (n = MaxOps) => PrintT(<<"BEH", ToJson([max |-> max, steps |-> hist, final |-> q])>>)
ViewNoHist == <<max, q, n, out, ev>>
=============================================================================
