\* PipeConn_dev_leak.cfg6
SPECIFICATION Spec
CONSTANTS
  Callers = {0, 1}
  M = 4
  MaxCqs = {2}
  MaxCalls = 1
  StartQids = {3}
  Datagrams = {FALSE}
  UNBUFFERED_HANDOFF = FALSE
  RANDOM_SELECT = FALSE
  DOUBLE_COUNT = FALSE
  DEV = {"leak_on_err"}
  MaxStray = 0
  MaxDup = 0
  MaxCancel = 0
  MaxFault = 1
  StrictClosed = FALSE
  GenFocus = "none"
  WithHist = FALSE
INVARIANTS QuiescentFree
VIEW ViewNoHist
CHECK_DEADLOCK FALSE
