SPECIFICATION Spec
CONSTANTS
  Conns = {1}
  Ids = {1, 2, 3, 4}
  Mode = "udp"
  WithHist = TRUE
  MaxG = 2
  GenLen = 12
  WithWDL = FALSE
  DEV = "none"
INVARIANTS Emit
CONSTRAINT GenBound
CHECK_DEADLOCK FALSE
