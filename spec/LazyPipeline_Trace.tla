------------------------ MODULE LazyPipeline_Trace ------------------------
(***************************************************************************)
(* Leg C: traces recorded by harness/drv_pool (mode "pipeline") from the   *)
(* real PipelineTransport + lazyDnsConn over harness DnsConns (fake real   *)
(* connections with the DnsConn contract), checked against LazyPipeline.   *)
(* Logged: Reset(dials = number of dials of this trace), Start(c), Cancel(c), Dial(x), DialRet(x, ok),            *)
(*   ExchReq(x, c) (ExchangeReserved called on connection x with c's       *)
(*   query), ExchRet(x, c, r) (r = ok | err | ctx), UClose(x) (Close() on  *)
(*   a live dialled connection), Kill(x, k) (the harness kills the fake    *)
(*   connection), Withdraw(x), Parked(c), TClose, TCloseRet, Return(c, res)*)
(* x is the harness' dial number; hid binds it to the spec's connection.   *)
(* Silent: GetRX, EarlyWake, EarlyCtx, Retry, Fail, TCloseLock, TCloseOne  *)
(* on a connection that is not dialled or already dead.                  *)
(***************************************************************************)
EXTENDS LazyPipeline, IOUtils

VARIABLE l

Trace == ndJsonDeserialize(IOEnv.TRACE_FILE)
tvars == <<vars, l>>
Ev == Trace[l]
IsEvent(e) == l <= Len(Trace) /\ Ev.ev = e /\ l' = l + 1

TraceInit == l = 1 /\ Init

Reset ==
    /\ IsEvent("Reset")
    /\ pc' = [c \in Calls |-> "na"] /\ att' = [c \in Calls |-> 0] /\ isNew' = [c \in Calls |-> FALSE]
    /\ cur' = [c \in Calls |-> 0] /\ ctxDone' = [c \in Calls |-> FALSE] /\ res' = [c \in Calls |-> "na"]
    /\ writes' = [c \in Calls |-> 0] /\ used' = [c \in Calls |-> {}] /\ failOK' = [c \in Calls |-> TRUE]
    /\ startedClosed' = [c \in Calls |-> FALSE] /\ got' = [c \in Calls |-> FALSE]
    /\ lz' = [x \in ConnIds |-> "none"] /\ lclosed' = [x \in ConnIds |-> FALSE]
    /\ early' = [x \in ConnIds |-> 0] /\ wg' = [x \in ConnIds |-> 0] /\ hid' = [x \in ConnIds |-> 0]
    /\ dpc' = [x \in ConnIds |-> "none"]
    /\ health' = [x \in ConnIds |-> "na"] /\ inuse' = [x \in ConnIds |-> 0] /\ uclosed' = [x \in ConnIds |-> FALSE]
    /\ tclosed' = FALSE /\ tm' = "free" /\ conns' = {} /\ cl' = "idle" /\ nd' = 0 /\ ndmax' = Ev.dials
    /\ flip' = [c \in Calls |-> {}]
    /\ spurious' = FALSE /\ hist' = <<>>

\* the spec connection bound to harness dial number h
ConnOf(h) == CHOOSE x \in ConnIds : hid[x] = h
Known(h) == \E x \in ConnIds : hid[x] = h

Logged ==
    \/ IsEvent("Start") /\ Start(Ev.c)
    \/ IsEvent("Cancel") /\ (Cancel(Ev.c) \/ (pc[Ev.c] = "done" /\ UNCHANGED vars))
    \/ IsEvent("Dial") /\ \E x \in ConnIds : DialInvoke(x, Ev.x)
    \/ IsEvent("DialRet") /\ Known(Ev.x) /\ IF Ev.ok THEN DialOk(ConnOf(Ev.x)) ELSE DialErr(ConnOf(Ev.x))
    \/ IsEvent("ExchReq") /\ cur[Ev.c] # 0 /\ hid[cur[Ev.c]] = Ev.x /\ ExchReq(Ev.c)
    \/ IsEvent("ExchRet") /\ cur[Ev.c] # 0 /\ hid[cur[Ev.c]] = Ev.x
         /\ \/ Ev.r = "ok" /\ ExchOk(Ev.c)
            \/ Ev.r = "err" /\ ExchFail(Ev.c)
            \/ Ev.r = "ctx" /\ ExchCtx(Ev.c)
    \/ IsEvent("Withdraw") /\ \E c \in Calls : cur[c] # 0 /\ hid[cur[c]] = Ev.x /\ Withdraw(c)
    \* observation of the controller (goroutine dump): call c has not returned, and its goroutine as well as every
    \* other goroutine of the code is blocked (not runnable): c is queued on a connection that is still dialing and
    \* every dial goroutine that was spawned has reached the dial function
    \/ IsEvent("Parked") /\ pc[Ev.c] = "early" /\ (\A x \in ConnIds : dpc[x] # "spawned") /\ UNCHANGED vars
    \/ IsEvent("UClose") /\ Known(Ev.x)
         /\ \/ lz[ConnOf(Ev.x)] = "dialed" /\ health[ConnOf(Ev.x)] # "dead" /\ TCloseOne(ConnOf(Ev.x))
            \/ DialCloseLate(ConnOf(Ev.x))
    \/ IsEvent("Kill") /\ Known(Ev.x) /\ Kill(ConnOf(Ev.x), Ev.k)
    \/ IsEvent("TClose") /\ TCloseStart
    \/ IsEvent("TCloseRet") /\ TCloseObs
    \/ IsEvent("Return") /\ pc[Ev.c] = "done" /\ UNCHANGED vars
         /\ \/ Ev.res = "ok" /\ res[Ev.c] = "ok"
            \/ Ev.res = "ctx" /\ res[Ev.c] # "ok" /\ ctxDone[Ev.c]
            \/ Ev.res = "tclosed" /\ res[Ev.c] # "ok" /\ tclosed
            \/ Ev.res = "other" /\ res[Ev.c] \notin {"ok", "ctx"}

Silent ==
    /\ l <= Len(Trace)
    /\ UNCHANGED l
    /\ \/ \E c \in Calls : GetRX(c) \/ EarlyWake(c) \/ EarlyCtx(c) \/ Retry(c) \/ Fail(c)
       \/ \E x \in ConnIds : (lz[x] # "dialed" \/ health[x] = "dead") /\ TCloseOne(x)
       \/ TCloseLock \/ TCloseEnd

TraceNext == (Reset \/ Logged \/ Silent) /\ LazyInv'

TraceSpec == TraceInit /\ [][TraceNext]_tvars

\* high-water mark of the trace position (needs -workers 1); depth-first search (StateDeque) stops as soon as
\* one complete explanation has been found
HWM == TLCSet(1, IF TLCGet(1) < l THEN l ELSE TLCGet(1)) /\ (l = Len(Trace) + 1 => TLCSet("exit", TRUE))
HWMInit == TLCSet(1, 0)
ASSUME HWMInit
Accepted == PrintT(<<"HWM", TLCGet(1), Len(Trace)>>)
=============================================================================
