\* non-vacuity D12: closeWithErr locks t.m inside closeOnce.Do
SPECIFICATION Spec
CONSTANTS
  NCalls = 2
  MaxDials = 2
  Policy = "code"
  MaxRetry = 2
  AttemptBound = 4
  RandomSelect = FALSE
  LockInOnce = TRUE
  Dev = {}
  MaxFaults = 1
  Kinds = {"eof"}
  OrderedStart = TRUE
  CancelCalls = {}
  EnvTClose = TRUE
  Coarse = TRUE
  Eager = FALSE
  WithHist = FALSE
VIEW ViewNoHist
INVARIANTS NoLockCycle

CHECK_DEADLOCK FALSE
