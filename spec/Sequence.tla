---------------------------- MODULE Sequence ----------------------------
(***************************************************************************)
(* C06 -- plugin/executable/sequence: chain.go (ChainWalker.ExecNext,      *)
(* reverseMatch), built_in.go (accept/reject/return/jump/goto),            *)
(* sequence.go (NewSequence/Exec), config.go (rule text).                  *)
(*                                                                         *)
(* DIRECT STYLE, deliberately not the continuation-passing style of        *)
(* chain.go: every run of the interpreter is a stack of frames             *)
(* [s, pc, mi] (sequence, rule, next matcher) plus a list `pend` of        *)
(* wrapping plugins whose continuation is running.  The property text is   *)
(* read as follows:                                                        *)
(*   rules in order; matchers left to right, stop at the first that is     *)
(*   false after negation; action only if all matched      -> StepSeq      *)
(*   accept/reject end all rule processing of the run      -> stack = <<>> *)
(*   return pops one frame; end of sequence pops one frame                 *)
(*   jump pushes a frame (caller frame already advanced)                   *)
(*   goto replaces the whole stack                                         *)
(*   error of a matcher/action aborts the run and every pending wrapper    *)
(*   a wrapping plugin at (s,r) receives k == the stack with the top frame *)
(*   advanced -- a VALUE; it is the tail of its run (the stack is emptied, *)
(*   a pend frame pushed); running k == loading the snapshot again.        *)
(* Harness wrappers (scripts for the Go side):                             *)
(*   wstop  never runs k          wcont  runs k once                       *)
(*   wpost  runs k, then post-processes (sees the response, overwrites it) *)
(*   wtwice runs k twice on the same query, one after the other            *)
(*   wconc  runs k on two copies concurrently, joins, returns first error  *)
(*   wkeep  runs k once and KEEPS it (with a copy of the query as it was): *)
(*          after the caller's Exec has returned (phase "late") every kept *)
(*          continuation is run again on its copy, as a run of its own     *)
(*          (tag = keeper's tag o <<1000 + j>>), like cache's lazy update  *)
(* Built-in actions are invisible to the harness: only harness matchers    *)
(* ("m"), harness actions ("a") and the wrappers' own marks ("ks" "ke"     *)
(* "post" "fork" "join") are logged, per run (= per query copy).           *)
(*                                                                         *)
(* TLC chooses the PROGRAM: build phase (AddRule / Seal; canonical order,  *)
(* targets of jump/goto have a higher index => acyclic, sequences other    *)
(* than s1 are non-empty only if referenced), then executes it.  In BFS    *)
(* this enumerates all programs within the bounds, with -simulate it       *)
(* samples them.                                                           *)
(***************************************************************************)
EXTENDS Integers, Sequences, FiniteSets, TLC, Json, SequencesExt

CONSTANTS
    MaxSeq, MaxRules, MaxMatch,   \* program size bounds
    MKinds,                       \* subset of {"T","F","E"}
    Negs,                         \* subset of BOOLEAN
    Acts,                         \* subset of the ops below
    RejectCodes,                  \* rcodes for reject
    MaxMulti,                     \* max number of wtwice+wconc rules in a program
    MaxConc,                      \* max number of wconc rules in a program
    Sched,                        \* "free": concurrent copies interleave; "det": one after the other (generator)
    Bug                           \* "none" | deviation switch for the non-vacuity configs

VARIABLES
    phase,      \* "build" | "exec" | "late" (kept continuations run) | "done"
    bs,         \* sequence being built
    prog,       \* [1..MaxSeq -> Seq(Rule)]
    runs,       \* [tag -> run]; tag = <<0>> for the caller's query, Append(tag, n) for its n-th copy
    reuseOK     \* ghost: every completed pair of runs of one continuation produced equal logs

vars == <<phase, bs, prog, runs, reuseOK>>

SimpleOps == {"nop", "set", "drop", "perr", "wstop", "wcont", "wpost", "wtwice", "wconc", "wkeep", "accept", "return"}
WrapOps == {"wcont", "wpost", "wtwice", "wconc", "wkeep"}
MultiOps == {"wtwice", "wconc", "wkeep"}
LateBase == 1000
Root == <<0>>
NoResp == -1
PostCode == 9

NoErr == [k |-> "none", s |-> 0, r |-> 0, m |-> 0]
LE(t, s, r, m, v) == [t |-> t, s |-> s, r |-> r, m |-> m, v |-> v]
Frame(s, pc, mi) == [s |-> s, pc |-> pc, mi |-> mi]
NewRun(resp, pend) ==
    [stack |-> <<>>, pend |-> pend, log |-> <<>>, resp |-> resp, err |-> NoErr, st |-> "run", nch |-> 0,
     keeps |-> <<>>]
PFrame(op, s, r, k) == [op |-> op, s |-> s, r |-> r, k |-> k, n |-> 0, ph |-> "start", ch |-> <<>>, b |-> <<>>]

------------------------------------------------------------------------------
\* build phase

MatcherSpace == [k : MKinds, neg : Negs]
MatcherLists == UNION {[1..n -> MatcherSpace] : n \in 0..MaxMatch}
ActSpace(s) ==
    {[op |-> o, arg |-> 0] : o \in Acts \cap SimpleOps}
    \cup (IF "reject" \in Acts THEN {[op |-> "reject", arg |-> c] : c \in RejectCodes} ELSE {})
    \cup {[op |-> o, arg |-> t] : o \in Acts \cap {"jump", "goto"}, t \in (s + 1)..MaxSeq}

AllRules == UNION {{prog[s][i] : i \in 1..Len(prog[s])} : s \in 1..MaxSeq}
CountOps(ops) == Cardinality({<<s, i>> \in (1..MaxSeq) \X (1..MaxRules) :
                                 i <= Len(prog[s]) /\ prog[s][i].act.op \in ops})
Referenced(s) == s = 1 \/ \E rl \in AllRules : rl.act.op \in {"jump", "goto"} /\ rl.act.arg = s

AddRule ==
    /\ phase = "build" /\ bs <= MaxSeq /\ Len(prog[bs]) < MaxRules /\ Referenced(bs)
    /\ \E ms \in MatcherLists, a \in ActSpace(bs) :
          /\ a.op \in MultiOps => CountOps(MultiOps) < MaxMulti
          /\ a.op = "wconc" => CountOps({"wconc"}) < MaxConc
          /\ prog' = [prog EXCEPT ![bs] = Append(@, [ms |-> ms, act |-> a])]
    /\ UNCHANGED <<phase, bs, runs, reuseOK>>

Seal ==
    /\ phase = "build" /\ bs <= MaxSeq
    /\ bs' = bs + 1
    /\ UNCHANGED <<phase, prog, runs, reuseOK>>

Start ==
    /\ phase = "build" /\ bs = MaxSeq + 1
    /\ phase' = "exec"
    /\ runs' = (Root :> [NewRun(NoResp, <<>>) EXCEPT !.stack = <<Frame(1, 1, 1)>>])
    /\ UNCHANGED <<bs, prog, reuseOK>>

------------------------------------------------------------------------------
\* one run of the interpreter: local steps (a function of the run record and the program)

Top(st) == st[Len(st)]
Pop(st) == SubSeq(st, 1, Len(st) - 1)
SetTop(st, f) == [st EXCEPT ![Len(st)] = f]

Abort(R, e, entry) ==
    [R EXCEPT !.stack = <<>>, !.pend = <<>>, !.err = e, !.log = Append(@, entry)]

Eff(mt) == IF Bug = "neg_lost" THEN mt.k = "T" ELSE (mt.k = "T") # mt.neg

StepAct(R, f, a) ==
    LET adv == SetTop(R.stack, Frame(f.s, f.pc + 1, 1))
        ent == LE("a", f.s, f.pc, 0, a.op)
    IN CASE a.op = "nop"    -> [R EXCEPT !.log = Append(@, ent), !.stack = adv]
         [] a.op = "set"    -> [R EXCEPT !.log = Append(@, ent), !.stack = adv, !.resp = 0]
         [] a.op = "drop"   -> [R EXCEPT !.log = Append(@, ent), !.stack = adv, !.resp = NoResp]
         [] a.op = "perr"   -> IF Bug = "aerr_swallowed"
                                 THEN [R EXCEPT !.log = Append(@, ent), !.stack = adv]
                                 ELSE Abort(R, [k |-> "a", s |-> f.s, r |-> f.pc, m |-> 0], ent)
         [] a.op = "accept" -> [R EXCEPT !.stack = <<>>]
         [] a.op = "reject" -> [R EXCEPT !.stack = <<>>, !.resp = a.arg]
         [] a.op = "return" -> [R EXCEPT !.stack = Pop(@)]
         [] a.op = "jump"   -> [R EXCEPT !.stack = Append(IF Bug = "jump_not_advanced" THEN SetTop(@, Frame(f.s, f.pc, 1)) ELSE adv,
                                                            Frame(a.arg, 1, 1))]
         [] a.op = "goto"   -> [R EXCEPT !.stack = <<Frame(a.arg, 1, 1)>>]
         [] a.op = "wstop"  -> [R EXCEPT !.log = Append(@, ent), !.stack = <<>>]
         [] a.op = "wkeep" ->
                [R EXCEPT !.log = Append(@, ent), !.stack = <<>>,
                          !.pend = Append(@, [PFrame(a.op, f.s, f.pc, adv) EXCEPT !.ch = <<Len(R.keeps) + 1>>]),
                          !.keeps = Append(@, [s |-> f.s, r |-> f.pc, k |-> adv, resp |-> R.resp, b |-> 0, e |-> 0])]
         [] a.op \in WrapOps ->
                [R EXCEPT !.log = Append(@, ent), !.stack = <<>>,
                          !.pend = Append(@, PFrame(a.op, f.s, f.pc, adv))]

StepSeq(R) ==
    LET f == Top(R.stack)
        rules == prog[f.s]
    IN IF f.pc > Len(rules) THEN [R EXCEPT !.stack = Pop(@)]
       ELSE LET rule == rules[f.pc] IN
            IF f.mi <= Len(rule.ms)
              THEN LET mt == rule.ms[f.mi]
                       entry == LE("m", f.s, f.pc, f.mi, mt.k)
                   IN IF mt.k = "E" /\ Bug # "merr_swallowed"
                        THEN Abort(R, [k |-> "m", s |-> f.s, r |-> f.pc, m |-> f.mi], entry)
                        ELSE [R EXCEPT !.log = Append(@, entry),
                                       !.stack = SetTop(@, IF Eff(mt) THEN Frame(f.s, f.pc, f.mi + 1)
                                                                      ELSE Frame(f.s, f.pc + 1, 1))]
              ELSE StepAct(R, f, rule.act)

\* the part of the log strictly between positions b and e; what a post-processing wrapper SAW in
\* the response is not part of "which rules ran" (a second run starts from the first run's response)
Mask(e) == IF e.t = "post" THEN [e EXCEPT !.m = 0] ELSE e
Seg(lg, b, e) == [i \in 1..(e - b - 1) |-> Mask(lg[b + i])]

\* stack = <<>>, pend # <<>>, top pend frame is not a fork/join of wconc
StepPend(R) ==
    LET np == Len(R.pend)
        P == R.pend[np]
        here == Len(R.log) + 1
        \* a keeping wrapper remembers where its own (synchronous) run of k starts and ends in the log
        KeepMark(ks, fld) == IF P.op = "wkeep"
                               THEN [ks EXCEPT ![P.ch[1]] = IF fld = "b" THEN [@ EXCEPT !.b = here] ELSE [@ EXCEPT !.e = here]]
                               ELSE ks
    IN CASE P.ph = "start" ->
              [R EXCEPT !.log = Append(@, LE("ks", P.s, P.r, 1, "")), !.stack = P.k,
                        !.pend[np].n = 1, !.pend[np].ph = "run", !.pend[np].b = <<here>>,
                        !.keeps = KeepMark(@, "b")]
         [] P.ph = "run" ->
              [R EXCEPT !.log = Append(@, LE("ke", P.s, P.r, IF P.op \in {"child", "late"} THEN R.resp ELSE P.n, "")),
                        !.pend[np].ph = "after", !.pend[np].b = Append(@, here),
                        !.keeps = KeepMark(@, "e")]
         [] P.ph = "after" ->
              CASE P.op = "wpost" ->
                     [R EXCEPT !.log = Append(@, LE("post", P.s, P.r, R.resp, "")), !.resp = PostCode,
                               !.pend = Pop(@)]
                [] P.op = "wtwice" /\ P.n = 1 ->
                     [R EXCEPT !.log = Append(@, LE("ks", P.s, P.r, 2, "")),
                               !.stack = IF Bug = "k_consumed" THEN <<>> ELSE P.k,
                               !.pend[np].n = 2, !.pend[np].ph = "run", !.pend[np].b = Append(@, here)]
                [] OTHER -> [R EXCEPT !.pend = Pop(@)]

\* ghost check at the end of the second run of wtwice: both runs logged the same
TwiceEqual(R) ==
    LET P == R.pend[Len(R.pend)]
    IN (P.op = "wtwice" /\ P.ph = "run" /\ P.n = 2)
         => Seg(R.log, P.b[1], P.b[2]) = Seg(R.log, P.b[3], Len(R.log) + 1)

NeedsFork(R) == R.stack = <<>> /\ R.pend # <<>> /\ Top(R.pend).op = "wconc" /\ Top(R.pend).ph = "start"

\* "det": a copy runs only after its elder sibling has finished
Runnable(tag) ==
    /\ runs[tag].st = "run"
    /\ Sched = "det" => \A t \in DOMAIN runs :
           (Len(t) = Len(tag) /\ Pop(t) = Pop(tag) /\ Top(t) < Top(tag)) => runs[t].st = "done"

IsLate(tag) == Top(tag) > LateBase
\* a kept continuation run later logged what the keeper's own run of it logged
LateEqual(tag) ==
    LET keeper == runs[Pop(tag)]
        K == keeper.keeps[Top(tag) - LateBase]
        L == runs[tag]
        sync == Seg(keeper.log, K.b, IF K.e > 0 THEN K.e ELSE Len(keeper.log) + 1)
        late == Seg(L.log, 1, IF L.err.k = "none" THEN Len(L.log) ELSE Len(L.log) + 1)
    IN sync = late /\ (L.err.k = "none") = (K.e > 0)

Running == phase \in {"exec", "late"}

Local(tag) ==
    LET R == runs[tag] IN
    /\ Running /\ Runnable(tag) /\ ~NeedsFork(R)
    /\ IF R.stack # <<>>
         THEN runs' = [runs EXCEPT ![tag] = StepSeq(R)] /\ UNCHANGED reuseOK
         ELSE IF R.pend # <<>>
                THEN /\ runs' = [runs EXCEPT ![tag] = StepPend(R)]
                     /\ reuseOK' = (reuseOK /\ TwiceEqual(R))
                ELSE /\ runs' = [runs EXCEPT ![tag].st = "done"]
                     /\ reuseOK' = (reuseOK /\ (IsLate(tag) => LateEqual(tag)))
    /\ UNCHANGED <<phase, bs, prog>>

Fork(tag) ==
    LET R == runs[tag]
        np == Len(R.pend)
        P == R.pend[np]
        c1 == Append(tag, R.nch + 1)
        c2 == Append(tag, R.nch + 2)
        child == NewRun(R.resp, <<PFrame("child", P.s, P.r, P.k)>>)
    IN /\ Running /\ Runnable(tag) /\ NeedsFork(R)
       /\ runs' = [t \in DOMAIN runs \cup {c1, c2} |->
                     IF t = tag THEN [R EXCEPT !.st = "wait", !.nch = @ + 2,
                                               !.log = Append(@, LE("fork", P.s, P.r, 0, "")),
                                               !.pend[np].ph = "join", !.pend[np].ch = <<c1, c2>>]
                     ELSE IF t \in {c1, c2} THEN child ELSE runs[t]]
       /\ UNCHANGED <<phase, bs, prog, reuseOK>>

TagPrefix(p, t) == Len(p) <= Len(t) /\ SubSeq(t, 1, Len(p)) = p
Rebase(t, p, q) == q \o SubSeq(t, Len(p) + 1, Len(t))

\* the two copies, and all copies made below them, logged the same
SubtreesEqual(c1, c2) ==
    /\ \A t \in DOMAIN runs : TagPrefix(c1, t) =>
          /\ Rebase(t, c1, c2) \in DOMAIN runs
          /\ runs[Rebase(t, c1, c2)].log = runs[t].log
          /\ runs[Rebase(t, c1, c2)].err = runs[t].err
    /\ \A t \in DOMAIN runs : TagPrefix(c2, t) => Rebase(t, c2, c1) \in DOMAIN runs

Join(tag) ==
    LET R == runs[tag]
        np == Len(R.pend)
        P == R.pend[np]
        c1 == P.ch[1]
        c2 == P.ch[2]
        e == IF runs[c1].err.k # "none" THEN runs[c1].err ELSE runs[c2].err
    IN /\ Running /\ R.st = "wait"
       /\ runs[c1].st = "done" /\ (runs[c2].st = "done" \/ Bug = "join_one")
       /\ runs' = [runs EXCEPT ![tag] =
                     IF e.k # "none"
                       THEN [Abort(R, e, LE("join", P.s, P.r, 0, "err")) EXCEPT !.st = "run"]
                       ELSE [R EXCEPT !.st = "run", !.log = Append(@, LE("join", P.s, P.r, 0, "ok")),
                                      !.pend = Pop(@)]]
       /\ reuseOK' = (reuseOK /\ SubtreesEqual(c1, c2))
       /\ UNCHANGED <<phase, bs, prog>>

\* the caller's Exec has returned; kept continuations are run from now on
Finish ==
    /\ phase = "exec" /\ runs[Root].st = "done"
    /\ phase' = "late"
    /\ UNCHANGED <<bs, prog, runs, reuseOK>>

AllRunsDone == \A t \in DOMAIN runs : runs[t].st = "done"
LateTag(tag, j) == Append(tag, LateBase + j)

LateStart(tag, j) ==
    /\ phase = "late" /\ runs[tag].st = "done"
    /\ j \in 1..Len(runs[tag].keeps) /\ LateTag(tag, j) \notin DOMAIN runs
    \* bound of the model: kept continuations are run one at a time, in any order (what a run logs does
    \* not depend on what runs beside it; the driver adds concurrent traffic on the same sequences)
    /\ AllRunsDone
    /\ LET K == runs[tag].keeps[j]
       IN runs' = [t \in DOMAIN runs \cup {LateTag(tag, j)} |->
                     IF t = LateTag(tag, j)
                       THEN NewRun(K.resp, <<PFrame("late", K.s, K.r,
                                                    IF Bug = "late_drops_return" THEN <<Top(K.k)>> ELSE K.k)>>)
                       ELSE runs[t]]
    /\ UNCHANGED <<phase, bs, prog, reuseOK>>

FinishLate ==
    /\ phase = "late" /\ AllRunsDone
    /\ \A t \in DOMAIN runs : \A j \in 1..Len(runs[t].keeps) : LateTag(t, j) \in DOMAIN runs
    /\ phase' = "done"
    /\ UNCHANGED <<bs, prog, runs, reuseOK>>

Init ==
    /\ phase = "build" /\ bs = 1
    /\ prog = [s \in 1..MaxSeq |-> <<>>]
    /\ runs = (Root :> NewRun(NoResp, <<>>))
    /\ reuseOK = TRUE

Next ==
    \/ AddRule \/ Seal \/ Start \/ Finish \/ FinishLate
    \/ \E tag \in DOMAIN runs : Local(tag) \/ Fork(tag) \/ Join(tag) \/ \E j \in 1..9 : LateStart(tag, j)

Spec == Init /\ [][Next]_vars
FairSpec == Spec /\ WF_vars(Next)

------------------------------------------------------------------------------
\* C06 at design level.  The invariants below are stated on the LOGS only (what the harness
\* plugins observe), independently of the step relation above.

RuleAt(e) == prog[e.s][e.r]
IsRuleEntry(e) == e.t \in {"m", "a"}
ErrEntry(e) == (e.t = "m" /\ e.v = "E") \/ (e.t = "a" /\ e.v = "perr") \/ (e.t = "join" /\ e.v = "err")

\* a harness action runs only directly after all matchers of its rule were evaluated, left to
\* right, each true after negation
ActionNeedsMatch ==
    \A tag \in DOMAIN runs : LET lg == runs[tag].log IN
      \A i \in 1..Len(lg) : lg[i].t = "a" =>
         LET ms == RuleAt(lg[i]).ms IN
         /\ i > Len(ms)
         /\ \A j \in 1..Len(ms) :
               LET e == lg[i - Len(ms) + j - 1] IN
               /\ e.t = "m" /\ e.s = lg[i].s /\ e.r = lg[i].r /\ e.m = j
               /\ (ms[j].k = "T") # ms[j].neg /\ ms[j].k # "E"

\* a matcher other than the first of its rule is evaluated only directly after its left neighbour
\* evaluated to true (after negation): evaluation stops at the first false
ShortCircuit ==
    \A tag \in DOMAIN runs : LET lg == runs[tag].log IN
      \A i \in 1..Len(lg) : (lg[i].t = "m" /\ lg[i].m > 1) =>
         /\ i > 1
         /\ LET e == lg[i - 1]
                mt == RuleAt(lg[i]).ms[lg[i].m - 1]
            IN /\ e.t = "m" /\ e.s = lg[i].s /\ e.r = lg[i].r /\ e.m = lg[i].m - 1
               /\ (mt.k = "T") # mt.neg /\ mt.k # "E"

\* an error is the last thing a run does, and it is reported
ErrorAborts ==
    \A tag \in DOMAIN runs : LET R == runs[tag] IN
      /\ \A i \in 1..Len(R.log) : ErrEntry(R.log[i]) => (i = Len(R.log) /\ R.err.k # "none")
      /\ R.err.k # "none" => (R.log # <<>> /\ ErrEntry(R.log[Len(R.log)]) /\ R.stack = <<>> /\ R.pend = <<>>)

\* rules are visited in order: two consecutive rule entries of the entry sequence s1 (which can
\* not be re-entered by jump/goto; a re-run of a continuation logs "ks" in between) never go
\* backwards and never repeat
InOrder ==
    \A tag \in DOMAIN runs : LET lg == runs[tag].log IN
      \A i \in 2..Len(lg) :
         (IsRuleEntry(lg[i]) /\ IsRuleEntry(lg[i - 1]) /\ lg[i].s = 1 /\ lg[i - 1].s = 1) =>
            \/ lg[i].r > lg[i - 1].r
            \/ lg[i].r = lg[i - 1].r /\ lg[i - 1].t = "m" /\ (lg[i].t = "a" \/ lg[i].m = lg[i - 1].m + 1)

\* every time a continuation is run it executes the same remaining rules
ContinuationReusable == reuseOK

\* after the call has returned nothing of it is left running (runs of kept continuations are runs of
\* their own: they start later); at the very end nothing at all
OfTheCall(tag) == \A i \in 1..Len(tag) : tag[i] < LateBase
Quiescent ==
    /\ phase \in {"late", "done"} =>
          \A tag \in DOMAIN runs : OfTheCall(tag) =>
              runs[tag].st = "done" /\ runs[tag].stack = <<>> /\ runs[tag].pend = <<>>
    /\ phase = "done" => \A tag \in DOMAIN runs : runs[tag].st = "done"

C06Inv == ActionNeedsMatch /\ ShortCircuit /\ ErrorAborts /\ InOrder /\ ContinuationReusable /\ Quiescent

TypeOK ==
    /\ phase \in {"build", "exec", "late", "done"}
    /\ bs \in 1..(MaxSeq + 1)
    /\ \A tag \in DOMAIN runs : runs[tag].st \in {"run", "wait", "done"}

Terminates == <>(phase = "done")

------------------------------------------------------------------------------
\* behaviour export (leg B): the program and what every run must have logged
RunList == LET tags == SetToSeq(DOMAIN runs)
           IN [i \in 1..Len(tags) |-> [tag |-> tags[i], log |-> runs[tags[i]].log,
                                       err |-> runs[tags[i]].err, resp |-> runs[tags[i]].resp]]
Emit == phase = "done" =>
    PrintT(<<"BEH", ToJson([prog |-> prog, runs |-> RunList,
                            resp |-> runs[Root].resp, err |-> runs[Root].err])>>)
=============================================================================
