\* leg A quick: 3 calls (two early callers + a later one), capacity 2, no cancel / Close
SPECIFICATION Spec
CONSTANTS
  NCalls = 3
  MaxDials = 3
  QueueLimit = 2
  ConnCap = 2
  Policy = "code"
  MaxRetry = 2
  AttemptBound = 4
  Dev = {}
  NoWgWait = FALSE
  ExactScan = TRUE
  MaxFaults = 1
  Kinds = {"stale", "dead"}
  CancelCalls = {}
  EnvTClose = FALSE
  OrderedStart = TRUE
  Eager = FALSE
  WithHist = FALSE
VIEW ViewNoHist
INVARIANTS TypeOK FailOnlyWhen AttemptsBounded ErrOnFault ClosedRejects CloseClosesAll QueueBound CapBound NoSpuriousRefusal NoLeak

CHECK_DEADLOCK FALSE
