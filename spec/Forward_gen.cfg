\* leg B generator: complete schedules (release order, collect points, cancel point) with expected result
SPECIFICATION Spec
CONSTANTS
  Ns = {2}
  Cs = {3}
  Outcomes = {"good", "nx", "bad", "error", "garbage", "never"}
  EnvCancel = TRUE
  Eager = TRUE
  WithHist = TRUE
  Bug = "none"
INVARIANTS Emit
CHECK_DEADLOCK FALSE
