\* leg A quick (C07): cancellation at every point, silence, liveness
SPECIFICATION FairSpec
CONSTANTS
  NCalls = 2
  MaxDials = 2
  Policy = "code"
  MaxRetry = 2
  AttemptBound = 4
  RandomSelect = FALSE
  LockInOnce = FALSE
  Dev = {}
  MaxFaults = 0
  Kinds = {"eof", "silent"}
  OrderedStart = TRUE
  CancelCalls = {1}
  EnvTClose = FALSE
  Coarse = TRUE
  Eager = FALSE
  WithHist = FALSE
VIEW ViewNoHist
INVARIANTS TypeOK FailOnlyWhen AttemptsBounded NoLoss ErrOnFault ClosedRejects CloseWakesAll ArmedIsShortWhenOwed OneAtATime IdleSound NoSpuriousUnexpected NoLockCycle
PROPERTIES CallsEnd
CHECK_DEADLOCK FALSE
