\* non-vacuity: attempts beyond the (lowered) bound
SPECIFICATION Spec
CONSTANTS
  NCalls = 2
  MaxDials = 2
  Policy = "code"
  MaxRetry = 2
  AttemptBound = 1
  RandomSelect = FALSE
  LockInOnce = FALSE
  Dev = {}
  MaxFaults = 1
  Kinds = {"eof"}
  OrderedStart = TRUE
  CancelCalls = {}
  EnvTClose = FALSE
  Coarse = TRUE
  Eager = FALSE
  WithHist = FALSE
VIEW ViewNoHist
INVARIANTS AttemptsBounded

CHECK_DEADLOCK FALSE
