\* non-vacuity: attempts beyond the bound
SPECIFICATION Spec
CONSTANTS
  NCalls = 3
  MaxDials = 3
  Policy = "code"
  MaxRetry = 2
  AttemptBound = 2
  RandomSelect = FALSE
  LockInOnce = FALSE
  Dev = {}
  MaxFaults = 2
  Kinds = {"eof"}
  OrderedStart = TRUE
  CancelCalls = {}
  EnvTClose = FALSE
  Coarse = TRUE
  WithHist = FALSE
VIEW ViewNoHist
INVARIANTS AttemptsBounded

CHECK_DEADLOCK FALSE
