\* non-vacuity
SPECIFICATION Spec
CONSTANTS
  NCalls = 2
  MaxDials = 2
  Policy = "code"
  MaxRetry = 2
  AttemptBound = 4
  RandomSelect = FALSE
  LockInOnce = FALSE
  Dev = {"close_keeps_idle"}
  MaxFaults = 1
  Kinds = {"eof"}
  OrderedStart = TRUE
  CancelCalls = {}
  EnvTClose = FALSE
  Coarse = TRUE
  Eager = FALSE
  WithHist = FALSE
VIEW ViewNoHist
INVARIANTS IdleSound

CHECK_DEADLOCK FALSE
