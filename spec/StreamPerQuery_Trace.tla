----------------------- MODULE StreamPerQuery_Trace -----------------------
(***************************************************************************)
(* Leg C: traces recorded from the real doh.Upstream (harness RoundTripper *)
(* gate) and transport.QuicDnsConn (fake quic.Connection / quic.Stream)    *)
(* checked against StreamPerQuery.tla.  One ndjson line per event, logged  *)
(* under one recorder mutex at the moment the harness performs / observes: *)
(*   Start(n)                    new scenario (resets the state)           *)
(*   Call(c,id)                  before the exchange is invoked            *)
(*   ReqEntry(s,c,wid,q,bufok)   a request entered the transport on harness*)
(*                               stream s: wire ID and question as decoded *)
(*                               at that moment; c = caller if the driver  *)
(*                               started the calls one by one, 0 = unknown *)
(*                               (then SOME caller explains it); q = 0 if  *)
(*                               the request cannot be decoded             *)
(*   ReqRelease(s,wid,q,bufok)   the harness "transport" reads the request *)
(*                               again: what the server receives           *)
(*   Respond(s,k)  Abort(s,k)    before the reply / failure is handed over *)
(*   Cancel(c)                   before the caller's context is cancelled  *)
(*   Return(c,k,id,q,s,bufok,slow)  the call returned: k = ok (a reply the *)
(*                               harness server built: names stream s and  *)
(*                               the question q it answers), garbage (the  *)
(*                               garbage bytes sent on stream s), err, or  *)
(*                               other (anything else: never explained)    *)
(*   End(c,bufok)                scenario over: caller's buffer compared   *)
(* Silent: Build.  "slow" (>= 1 s since Call) only widens what is accepted:*)
(* an implementation may have its own timer the harness cannot see.        *)
(* The invariants are conjoined to every step (existential validation).    *)
(***************************************************************************)
EXTENDS StreamPerQuery, IOUtils

VARIABLES l,
          sof     \* harness stream serial -> caller it belongs to (0 = not seen yet)

Trace == ndJsonDeserialize(IOEnv.TRACE_FILE)

MaxS == 16
tvars == <<vars, l, sof>>

Ev == Trace[l]
IsEvent(e) == l <= Len(Trace) /\ Ev.ev = e /\ l' = l + 1
Flag(f) == f \in DOMAIN Ev /\ Ev[f]
Owner(s) == IF s \in 1..MaxS THEN sof[s] ELSE 0
Pristine(c) == buf[c] = [q |-> c, id |-> cid[c]]

TraceInit ==
    /\ l = 1
    /\ sof = [s \in 1..MaxS |-> 0]
    /\ Init

Reset ==
    /\ IsEvent("Start")
    /\ sof' = [s \in 1..MaxS |-> 0]
    /\ cpc' = [c \in Callers |-> "idle"]
    /\ wpc' = [c \in Callers |-> "none"]
    /\ st' = [c \in Callers |-> "none"]
    /\ cid' = [c \in Callers |-> 0]
    /\ buf' = [c \in Callers |-> [q |-> c, id |-> 0]]
    /\ obj' = [i \in Callers \cup {0} |-> None]
    /\ seenE' = [c \in Callers |-> None]
    /\ seenR' = [c \in Callers |-> None]
    /\ srv' = [c \in Callers |-> None]
    /\ res' = [c \in Callers |-> None]
    /\ ctxDone' = [c \in Callers |-> FALSE]
    /\ hist' = <<>>

\* an error from a timer the harness cannot see: only accepted on a slow call whose stream got no answer
SlowErr(c) ==
    /\ cpc[c] = "wait" /\ st[c] # "answered"
    /\ cpc' = [cpc EXCEPT ![c] = "done"]
    /\ res' = [res EXCEPT ![c] = Err]
    /\ UNCHANGED <<wpc, st, cid, buf, obj, seenE, seenR, srv, ctxDone, hist>>

Logged ==
    \/ /\ IsEvent("Call") /\ Ev.c \in Callers /\ Call(Ev.c, Ev.id) /\ UNCHANGED sof
    \/ /\ IsEvent("ReqEntry") /\ Ev.s \in 1..MaxS /\ sof[Ev.s] = 0
       /\ \E c \in Callers :
            /\ Ev.c \in {0, c}
            /\ Send(c)
            /\ seenE'[c] = Req(Ev.q, Ev.wid)
            /\ Ev.bufok = Pristine(c)
            /\ sof' = [sof EXCEPT ![Ev.s] = c]
    \/ /\ IsEvent("ReqRelease") /\ Owner(Ev.s) # 0
       /\ Release(Owner(Ev.s))
       /\ seenR'[Owner(Ev.s)] = Req(Ev.q, Ev.wid)
       /\ Ev.bufok = Pristine(Owner(Ev.s))
       /\ UNCHANGED sof
    \/ /\ IsEvent("Respond") /\ Owner(Ev.s) # 0 /\ Ev.k \in Kinds /\ Respond(Owner(Ev.s), Ev.k) /\ UNCHANGED sof
    \/ /\ IsEvent("Abort") /\ Owner(Ev.s) # 0 /\ Abort(Owner(Ev.s), Ev.k) /\ UNCHANGED sof
    \/ /\ IsEvent("Cancel") /\ Ev.c \in Callers /\ UNCHANGED sof
       /\ IF ctxDone[Ev.c] THEN UNCHANGED vars ELSE Cancel(Ev.c)
    \/ /\ IsEvent("Return") /\ Ev.c \in Callers /\ UNCHANGED sof
       /\ Ev.bufok = Pristine(Ev.c)
       /\ \/ /\ Ev.k \in {"ok", "garbage"}
             /\ Return(Ev.c)
             /\ res'[Ev.c] = [k |-> Ev.k, q |-> Ev.q, s |-> Owner(Ev.s), id |-> Ev.id]
          \/ /\ Ev.k = "err"
             /\ \/ Return(Ev.c) /\ res'[Ev.c] = Err
                \/ ReturnCtx(Ev.c)
                \/ Flag("slow") /\ SlowErr(Ev.c)
    \/ /\ IsEvent("End") /\ Ev.c \in Callers /\ Ev.bufok = Pristine(Ev.c) /\ UNCHANGED <<vars, sof>>

Silent ==
    /\ l <= Len(Trace)
    /\ UNCHANGED <<l, sof>>
    /\ \E c \in Callers : Build(c)

TraceNext == (Reset \/ Logged \/ Silent) /\ StreamInv'

TraceSpec == TraceInit /\ [][TraceNext]_tvars

\* high-water mark of the trace position (needs -workers 1)
HWM == TLCSet(1, IF TLCGet(1) < l THEN l ELSE TLCGet(1))
HWMInit == TLCSet(1, 0)
ASSUME HWMInit
Accepted == PrintT(<<"HWM", TLCGet(1), Len(Trace)>>)
=============================================================================
