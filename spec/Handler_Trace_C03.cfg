SPECIFICATION TraceSpec
CONSTANTS
  Prop = "C03"
  Kinds = {"up"}
  MaxLen = 8
  Mals = {"ok"}
  CSizes = {512}
  COptSets <- NoOptions
  CVers = {0}
  WithNoOpt = TRUE
  UMsgs <- UMsgsTrace
  UOptSets <- UOptsNone
  Transports = {"udp", "tcp"}
  Caches = {"empty", "own", "redir", "other"}
  Dev = {}
  WithHist = FALSE
CONSTRAINT HWM
POSTCONDITION Accepted
CHECK_DEADLOCK FALSE
