-------------------------- MODULE DomainSet_Trace --------------------------
(***************************************************************************)
(* Leg C for C12: runs of the real domain.MixMatcher recorded by           *)
(* drv_domain as CONCRETE events (rule text, queried name, result) and     *)
(* mapped back into the abstract universe by checks/C12.py (inverse of the *)
(* fragment map, written independently of the Go concretizer).             *)
(*   New(def)               a fresh matcher with default type def          *)
(*   Add(t, f, ls, k)       rule number Len(rules)+1 loaded (its value is  *)
(*                          its number)                                    *)
(*   Match(name, ok, v)     Match(name) returned (v, ok); v = 0: the API   *)
(*                          carries no value                               *)
(* A Match line is accepted iff ok = (Allowed(name) # {}) and, when a      *)
(* value is reported, v \in Allowed(name) — the CONTRACT's answer.  The    *)
(* design invariant is conjoined to every step that changes the state.     *)
(***************************************************************************)
EXTENDS DomainSet, IOUtils

VARIABLE l

Trace == ndJsonDeserialize(IOEnv.TRACE_FILE)

tvars == <<vars, l>>

Ev == Trace[l]
IsEvent(x) == l <= Len(Trace) /\ Ev.ev = x /\ l' = l + 1

TraceInit ==
    /\ l = 1
    /\ Init

Reset ==
    /\ IsEvent("New")
    /\ Ev.def \in Defs
    /\ def' = Ev.def
    /\ rules' = <<>> /\ ms' = <<>>
    /\ fullM' = Empty /\ domM' = Empty /\ reM' = Empty /\ kwM' = Empty

NameIndex(n) == CHOOSE i \in NameIdx : NameList[i] = n

AddEv ==
    /\ IsEvent("Add")
    /\ LET r == [t |-> Ev.t, f |-> Ev.f, ls |-> Ev.ls, k |-> Ev.k] IN
       /\ r \in RuleUniverse
       /\ Add(r)
    /\ C12Inv'

MatchEv ==
    /\ IsEvent("Match")
    /\ LET al == Allowed(NameIndex(Ev.name)) IN
       /\ Ev.ok = (al # {})
       /\ (Ev.ok /\ Ev.v # 0) => Ev.v \in al
    /\ UNCHANGED vars

TraceNext == Reset \/ AddEv \/ MatchEv

TraceSpec == TraceInit /\ [][TraceNext]_tvars

\* high-water mark of the trace position (needs -workers 1)
HWM == TLCSet(1, IF TLCGet(1) < l THEN l ELSE TLCGet(1))
HWMInit == TLCSet(1, 0)
ASSUME HWMInit
Accepted == PrintT(<<"HWM", TLCGet(1), Len(Trace)>>)
=============================================================================
