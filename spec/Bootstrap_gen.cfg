SPECIFICATION Spec
CONSTANTS
  Callers = {"c1", "c2"}
  Addrs = {1, 2}
  MaxNow = 3
  MinInt = 2
  WithHist = TRUE
  RETRY_AT_ONCE = FALSE
INVARIANTS Emit
CONSTRAINT GenBound
CHECK_DEADLOCK FALSE
