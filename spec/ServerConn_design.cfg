SPECIFICATION FairSpec
CONSTANTS
  Conns = {1}
  Ids = {1, 2}
  Mode = "tcp"
  WithHist = FALSE
  MaxG = 1
  GenLen = 0
  WithWDL = TRUE
  DEV = "none"
INVARIANTS TypeOK FramesWhole OneReply NoReadAfterGiveUp DeadlineClass NilCloses CtxNotEarly DoneIsClean
PROPERTIES TruncCloses ReplyLive TimeoutCloses EofCloses ClosedCancels ListenerEnds ReadLive
VIEW ViewNoHist
CHECK_DEADLOCK FALSE
