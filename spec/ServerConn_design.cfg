SPECIFICATION FairSpec
CONSTANTS
  Conns = {1}
  Ids = {1, 2}
  Mode = "tcp"
  WithHist = FALSE
  MaxG = 1
  DEV = "none"
INVARIANTS TypeOK OneReply NoReadAfterGiveUp DeadlineClass NilCloses CtxNotEarly DoneIsClean
PROPERTIES ReplyLive TimeoutCloses EofCloses ClosedCancels ListenerEnds ReadLive
VIEW ViewNoHist
CHECK_DEADLOCK FALSE
