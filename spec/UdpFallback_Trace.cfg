SPECIFICATION TraceSpec
CONSTANTS
  TcpModes = {"answers"}
  TestBit = "tc"
  MaxTcp = 4
  MaxUdp = 12
  GiveUpResult = "err"
  Export = FALSE
CONSTRAINT HWM
POSTCONDITION Accepted
CHECK_DEADLOCK FALSE
