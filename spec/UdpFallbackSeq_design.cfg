\* leg A: the design (no id matching, a busy connection is never reused) gives every caller its own reply
SPECIFICATION Spec
CONSTANTS
  N = 3
  MaxConn = 3
  MaxResend = 1
  Matching = FALSE
  ReuseBusy = FALSE
  IdleOnCancel = FALSE
  WithHist = FALSE
  Export = FALSE
INVARIANTS TypeOK C17SeqInv BusyNotIdle
CHECK_DEADLOCK FALSE
