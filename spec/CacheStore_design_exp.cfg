\* leg A (2): one key, all expiry classes, phases before / band / after, 2 threads x 2 calls
SPECIFICATION Spec
CONSTANTS
  Threads = {t1, t2}
  Keys = {1}
  MinCap = 1
  Sizes = {0}
  OpTypes = {"get", "store"}
  Exps = {"long", "short", "past"}
  MaxOps = 4
  MaxPerThread = 2
  Exact = FALSE
  Dev = "none"
  TraceMode = FALSE
  SkipBand = FALSE
  WithHist = FALSE
INVARIANTS TypeOK Bounded NoForeignValue NoExpiredValue NoStaleAfterOverwriteOrFlush RangeSound LenBounded
VIEW ViewNoHist
SYMMETRY ThreadSym
CHECK_DEADLOCK FALSE
