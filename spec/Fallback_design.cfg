\* leg A: the repaired design (answer queued before the done-signal), all variants, exhaustive
SPECIFICATION FairSpec
CONSTANTS
  Orders = {"queue_first"}
  Standbys = {TRUE, FALSE}
  TimerMays = {TRUE, FALSE}
  LazyCaller = FALSE
  EagerCaller = FALSE
  EnvCancel = TRUE
  EnvDeadline = TRUE
  WithHist = FALSE
INVARIANTS TypeOK PrimaryWins SecondaryOnlyWhen NotStarted ErrOnlyIfBothFail ResultSound NoBlockedSender
PROPERTIES Terminates CtxEnds WorkersEnd
CHECK_DEADLOCK FALSE
