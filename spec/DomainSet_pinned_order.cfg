\* non-vacuity: keyword consulted before regexp => DesignOK must fail
SPECIFICATION Spec
CONSTANTS
  MaxName = 3
  MaxPat = 1
  MaxRePat = 1
  KwLen = 1
  MaxRules = 2
  Defs = {"domain"}
  Types = {"full", "domain", "keyword", "regexp", "none"}
  SuffixMode = "label"
  OrderName = "fdkr"
  KeepDeepest = TRUE
  EmitAll = FALSE
INVARIANTS DesignOK
CHECK_DEADLOCK FALSE
