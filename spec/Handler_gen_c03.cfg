\* leg B generator (C03): random behaviours (-simulate) over all simple plugin kinds; real advertised sizes
SPECIFICATION Spec
CONSTANTS
  Kinds = {"reject", "accept", "local", "ttl", "redirect", "cache", "ecs", "fwdopt", "up"}
  MaxLen = 3
  Mals = {"ok", "ok1x"}
  CSizes = {0, 511, 512, 513, 1232, 4096, 65535}
  COptSets <- COptsSome
  CVers = {0}
  WithNoOpt = TRUE
  UMsgs <- UMsgsGen
  UOptSets <- UOptsSome
  Transports = {"udp", "tcp"}
  Caches = {"empty", "own", "redir"}
  Dev = {}
  WithHist = TRUE
INVARIANTS Emit
CHECK_DEADLOCK FALSE
