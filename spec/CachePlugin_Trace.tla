------------------------- MODULE CachePlugin_Trace -------------------------
(***************************************************************************)
(* Leg C: traces recorded from the real cache plugin (harness/drv_cache)   *)
(* checked against CachePlugin.tla.  One ndjson line per event:            *)
(*   Reset(lazy, loose)      new plugin instance(s); loose = instances that*)
(*                           may forget entries (capacity, shorter life)   *)
(*   Inject(i, ents)         entries loaded through POST /load_dump with   *)
(*                           chosen times (abstract state given by TLC)    *)
(*   Exec(i, q, r, sid, o)   cache.Exec returned; r = what the harness     *)
(*                           `next` answers, sid = serial of that answer,  *)
(*                           o = observed [res, owner, id, ttls, cont,idok]*)
(*   RefreshStart(i, q, sid) background `next` invoked (lazy update)       *)
(*   RefreshEnd(i, q, r, sid) the harness lets it return r                 *)
(*   Mutate                  the harness overwrote a handed-out message    *)
(*   Dump(i, ents)           GET /dump decoded: [id, life, clife, age]     *)
(*   Load(j, status) LoadCut(j, status)   POST /load_dump of the last dump *)
(*                           intact / truncated                            *)
(*   Tick(d)                 d whole seconds passed                        *)
(*   Flush(i, strict)        GET /flush                                    *)
(* Contract freedom: TTLs may be one second lower than computed (Skew:     *)
(* wall clock between the harness' and the plugin's time.Now()); a loose   *)
(* instance may miss although an entry could be live, and may have stored  *)
(* with shorter lifetimes (Dump refines the model's knowledge).            *)
(* The invariants are conjoined to every step.                             *)
(***************************************************************************)
EXTENDS CachePlugin_MC, IOUtils

CONSTANTS Skew

VARIABLES l, loose

Trace == ndJsonDeserialize(IOEnv.TRACE_FILE)
tvars == <<vars, l, loose>>

Ev == Trace[l]
IsEvent(e) == l <= Len(Trace) /\ Ev.ev = e /\ l' = l + 1

TraceInit == l = 1 /\ Init /\ loose = {}

ToSet(s) == {s[x] : x \in DOMAIN s}

Reset ==
    /\ IsEvent("Reset")
    /\ lazy' = Ev.lazy /\ now' = 0
    /\ cache' = [i \in Insts |-> {}]
    /\ serial' = 1 /\ inflight' = {} /\ handles' = <<>>
    /\ dump' = {} /\ dumpOf' = 0 /\ mirror' = <<>>
    /\ obs' = NoObs /\ lastq' = NoQuery /\ nops' = 0 /\ hist' = <<>>
    /\ loose' = ToSet(Ev.loose)

EntryOfEv(x) ==
    [key |-> KeyOf(x.q), owner |-> QOf(x.q), id |-> x.id, r |-> x.r, stored |-> x.stored,
     msgExp |-> x.msgExp, cacheExp |-> x.cacheExp, cont |-> "orig"]

Inject ==
    /\ IsEvent("Inject")
    /\ cache' = [cache EXCEPT ![Ev.i] = Overlay(@, LiveOf({EntryOfEv(Ev.ents[x]) : x \in DOMAIN Ev.ents}))]
    /\ obs' = Ack("injected")
    /\ UNCHANGED <<lazy, now, serial, inflight, handles, dump, dumpOf, mirror, lastq, nops, hist, loose>>

\* observed TTLs: computed value, or up to Skew seconds older.  An event may carry its own bound ("skew": 0
\* when the harness measured that less than one second of wall clock passed since the entry was stored).
EvSkew == IF "skew" \in DOMAIN Ev THEN Ev.skew ELSE Skew
TTLsMatch(o, v, e) ==
    /\ DOMAIN o.ttls = DOMAIN v.ttls
    /\ IF v.res = "stale" THEN o.ttls = v.ttls
       ELSE \E s \in 0..EvSkew : \A j \in DOMAIN o.ttls : o.ttls[j] = Max2(1, e.r.ttls[j] - (now + s - e.stored))

ExecHit(i, q, o) ==
    LET k == KeyOf(q) v == View(i, k) IN
    /\ v.res \in {"hit", "stale"}      \* the harness sees "served from cache"; the model knows which kind
    \* id -1 / flags -1: not observable (an answer without records carries only its question)
    /\ o.owner.n = v.owner.n /\ o.owner.t = v.owner.t /\ o.owner.c = v.owner.c /\ o.owner.f \in {v.owner.f, -1}
    /\ o.id \in {v.id, -1} /\ o.cont = v.cont /\ o.idok = v.idok
    /\ \E e \in Find(i, k) : TTLsMatch(o, v, e)
    /\ IF v.res = "stale" /\ ~Refreshing(i, k)
       THEN inflight' = inflight \cup {[i |-> i, key |-> k, q |-> QOf(q), rid |-> 0]}
       ELSE UNCHANGED inflight
    /\ UNCHANGED cache

StoreT(i, k, q, r, sid) ==
    \/ cache' = Store(i, k, q, r, sid)
    \/ i \in loose /\ cache' = cache       \* a loose instance may decline to store

ExecMiss(i, q, r, sid) ==
    LET k == KeyOf(q) IN
    /\ View(i, k).res = "miss" \/ i \in loose
    /\ \/ View(i, k).res = "miss" /\ StoreT(i, k, q, r, sid)
       \/ View(i, k).res # "miss" /\ i \in loose
            /\ \E c2 \in {[cache EXCEPT ![i] = {e \in @ : e.key # k}]} :
                  \/ cache' = [c2 EXCEPT ![i] = IF MsgLife(r) > 0 /\ CacheLife(r, lazy) > 0
                                                THEN Put(@, [NewEntry(k, q, r, sid) EXCEPT !.id = sid]) ELSE @]
                  \/ cache' = c2
    /\ UNCHANGED inflight

\* a miss that was answered without an upstream exchange of its own: it may only share the exchange of a
\* concurrent query for the SAME question (equal key)
ExecJoined(i, q, o, r) ==
    /\ o.owner.n = q.n /\ o.owner.t = q.t /\ o.owner.c = q.c /\ o.owner.f \in {q.f, -1}
    /\ o.idok
    /\ \/ cache' = Store(i, KeyOf(q), q, r, o.id)
       \/ i \in loose /\ cache' = cache
    /\ UNCHANGED inflight

ExecEv ==
    /\ IsEvent("Exec")
    /\ LET i == Ev.i q == Ev.q o == Ev.o IN
       /\ lastq' = q
       /\ obs' = [res |-> IF o.res = "hit" THEN View(i, KeyOf(q)).res ELSE o.res, owner |-> IF o.owner.f = -1 THEN [o.owner EXCEPT !.f = q.f] ELSE o.owner,
                  id |-> IF o.id = -1 /\ o.res = "hit" THEN View(i, KeyOf(q)).id ELSE o.id,
                  ttls |-> o.ttls, cont |-> o.cont, idok |-> o.idok, i |-> i]
       /\ CASE o.res = "bypass" -> q.k # "std" /\ UNCHANGED <<cache, inflight>>
            [] o.res = "hit" -> q.k = "std" /\ ExecHit(i, q, o)
            [] o.res = "miss" -> q.k = "std" /\ ExecMiss(i, q, Ev.r, Ev.sid)
            [] o.res = "joined" -> q.k = "std" /\ ExecJoined(i, q, o, Ev.r)
            [] OTHER -> FALSE
    /\ mirror' = IF cache' # cache THEN <<>> ELSE mirror
    /\ UNCHANGED <<lazy, now, serial, handles, dump, dumpOf, nops, hist, loose>>

\* the background `next` was invoked with question Ev.q.  It may be logged before the stale Exec that
\* caused it (that call has not returned yet).  The refresh belongs to the key the cache was looked up
\* under (f.key) whatever question it fetches; a second invocation for a key whose refresh is running is
\* never allowed.
RefreshStart ==
    /\ IsEvent("RefreshStart")
    /\ ("hasresp" \in DOMAIN Ev) => ~Ev.hasresp     \* the refresh runs the chain on a context WITHOUT response
    /\ LET k == KeyOf(Ev.q)
           pend == {f \in inflight : f.i = Ev.i /\ f.rid = 0}
           same == {f \in pend : f.key = k} IN
       \/ \E f \in same :
             inflight' = (inflight \ {f}) \cup {[f EXCEPT !.q = QOf(Ev.q), !.rid = Ev.sid]}
       \/ /\ same = {}
          /\ \E f \in pend :
                inflight' = (inflight \ {f}) \cup {[f EXCEPT !.q = QOf(Ev.q), !.rid = Ev.sid]}
       \/ /\ pend = {}
          /\ ~(\E f \in inflight : f.i = Ev.i /\ f.key = k)
          /\ inflight' = inflight \cup {[i |-> Ev.i, key |-> k, q |-> QOf(Ev.q), rid |-> Ev.sid]}
    /\ UNCHANGED <<lazy, now, cache, serial, handles, dump, dumpOf, mirror, obs, lastq, nops, hist, loose>>

RefreshEndEv ==
    /\ IsEvent("RefreshEnd")
    /\ \E f \in inflight :
          /\ f.i = Ev.i /\ f.rid = Ev.sid
          /\ inflight' = inflight \ {f}
          /\ \/ cache' = Store(f.i, f.key, Ev.q, Ev.r, Ev.sid)      \* under the key of the lookup, owner = what was fetched
             \/ f.i \in loose /\ cache' = cache
    /\ obs' = Ack("refreshed")
    /\ mirror' = IF cache' # cache THEN <<>> ELSE mirror
    /\ UNCHANGED <<lazy, now, serial, handles, dump, dumpOf, lastq, nops, hist, loose>>

\* Alias = "none": nothing the environment does to a handed-out message changes the state
MutateEv ==
    /\ IsEvent("Mutate")
    /\ UNCHANGED <<vars, loose>>

\* a dumped entry is a live entry of the instance.  x = [id, rem, crem, age]: remaining message / cache
\* lifetime and age at the time of the dump (age = -1: stored time not examined).  A loose instance may
\* have chosen shorter lifetimes.
DumpMatches(i, x, e) ==
    /\ x.id \in {e.id, -1}          \* -1: an answer without records carries no serial
    /\ IF x.age = -1
       THEN IF i \in loose
            THEN x.rem <= e.msgExp - now /\ x.crem <= e.cacheExp - now
            ELSE \E s \in 0..Skew : x.rem + s = e.msgExp - now /\ x.crem + s = e.cacheExp - now
       ELSE /\ \E s \in 0..Skew : x.age = now + s - e.stored
            /\ IF i \in loose
               THEN x.rem + x.age <= e.msgExp - e.stored /\ x.crem + x.age <= e.cacheExp - e.stored
               ELSE x.rem + x.age = e.msgExp - e.stored /\ x.crem + x.age = e.cacheExp - e.stored
Refined(e, x) == IF x.age = -1 THEN e
                 ELSE [e EXCEPT !.msgExp = e.stored + x.rem + x.age, !.cacheExp = e.stored + x.crem + x.age]

FlushEv ==
    /\ IsEvent("Flush")
    /\ cache' = [cache EXCEPT ![Ev.i] = {}]
    /\ loose' = IF Ev.strict THEN loose \ {Ev.i} ELSE loose
    /\ mirror' = <<>>
    /\ obs' = Ack("flushed")
    /\ UNCHANGED <<lazy, now, serial, inflight, handles, dump, dumpOf, lastq, nops, hist>>

DumpEv ==
    /\ IsEvent("Dump")
    /\ Ev.status = 200           \* a dump request for a legal cache content succeeds and is decodable
    /\ LET i == Ev.i xs == ToSet(Ev.ents) live == LiveOf(cache[i])
           kept == {e \in live : \E x \in xs : DumpMatches(i, x, e)} IN
       /\ \A x \in xs : \E e \in live : DumpMatches(i, x, e)
       /\ i \in loose \/ kept = live
       /\ \A x, y \in xs : (x.id = y.id /\ x.id # -1) => x = y
       /\ LET nc == {IF \E x \in xs : x.id = e.id THEN Refined(e, CHOOSE x \in xs : x.id = e.id) ELSE e : e \in kept} IN
          /\ cache' = [cache EXCEPT ![i] = nc]
          \* set = FALSE: a read-back for inspection only; later loads still use the previous dump
          /\ dump' = IF Ev.set THEN nc ELSE dump
    /\ dumpOf' = IF Ev.set THEN Ev.i ELSE dumpOf
    /\ obs' = Ack("dumped")
    /\ UNCHANGED <<lazy, now, serial, inflight, handles, mirror, lastq, nops, hist, loose>>

LoadEv ==
    /\ IsEvent("Load")
    /\ Ev.status = 200
    /\ dumpOf \in Insts
    /\ cache' = [cache EXCEPT ![Ev.j] = Overlay(@, LiveOf(dump))]
    /\ mirror' = IF cache[Ev.j] = {} /\ dumpOf # Ev.j /\ LiveOf(dump) = LiveOf(cache[dumpOf]) THEN <<dumpOf, Ev.j>> ELSE <<>>
    /\ obs' = Ack("loaded")
    /\ UNCHANGED <<lazy, now, serial, inflight, handles, dump, dumpOf, lastq, nops, hist, loose>>

\* truncated: must be refused; whatever was added is a subset of the dump (instance becomes loose)
LoadCutEv ==
    /\ IsEvent("LoadCut")
    /\ Ev.status = 400
    /\ dumpOf \in Insts
    \* entries of the dump whose key is already present may or may not have replaced the present entry;
    \* all others are represented as "possibly there" (the instance becomes loose)
    /\ \E K \in SUBSET {e \in LiveOf(dump) : \E x \in cache[Ev.j] : x.key = e.key} :
          cache' = [cache EXCEPT ![Ev.j] = Overlay(@, LiveOf(dump) \ K)]
    /\ loose' = loose \cup {Ev.j}
    /\ mirror' = <<>> /\ obs' = Ack("error")
    /\ UNCHANGED <<lazy, now, serial, inflight, handles, dump, dumpOf, lastq, nops, hist>>

TickEv ==
    /\ IsEvent("Tick")
    /\ now' = now + Ev.d /\ obs' = Ack("tick")
    /\ UNCHANGED <<lazy, cache, serial, inflight, handles, dump, dumpOf, mirror, lastq, nops, hist, loose>>

PropInv ==
    /\ NoSharing /\ BypassRule /\ StaleRule /\ AdmissionRule /\ NeverServedAfterExpiry
    /\ AtMostOneRefresh /\ Isolation /\ HitId /\ RestartTransparent

TraceNext ==
    (Reset \/ Inject \/ FlushEv \/ ExecEv \/ RefreshStart \/ RefreshEndEv \/ MutateEv \/ DumpEv \/ LoadEv \/ LoadCutEv \/ TickEv)
    /\ PropInv'

TraceSpec == TraceInit /\ [][TraceNext]_tvars

HWM == TLCSet(1, IF TLCGet(1) < l THEN l ELSE TLCGet(1))
HWMInit == TLCSet(1, 0)
ASSUME HWMInit
Accepted == PrintT(<<"HWM", TLCGet(1), Len(Trace)>>)
=============================================================================
