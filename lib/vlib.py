"""Shared machinery for the mosdns TLA+ model-based checks.

Three legs (DESIGN.md §2.1):
  A  tlc_mc()          exhaustive / simulated model check of a design spec
  B  tlc_behaviours()  TLC-generated behaviours (JSON) to be replayed into the real code
  C  tlc_trace()       validation of ndjson traces recorded from the real code

Verdict rules (DESIGN.md §2.2): exit 0 held, exit 1 + VIOLATION line only for a deviation
of the real code, exit 2 for infrastructure problems.
"""
import json
import os
import re
import shutil
import subprocess
import sys
import time

VERIF = os.path.dirname(os.path.dirname(os.path.abspath(__file__)))
REPO = os.environ.get("VERIF_REPO", "/repo")
TLA_CP = "/opt/veriftools/tla/tla2tools.jar:/opt/veriftools/tla/CommunityModules-deps.jar"
GOENV = {
    "GOFLAGS": "-mod=mod",
    "GOPROXY": "off",
    "GOSUMDB": "off",
    "GOTOOLCHAIN": "local",
    "GONOSUMDB": "*",
    "GONOSUMCHECK": "1",
}


class Infra(Exception):
    """Infrastructure failure: never a violation (exit 2)."""


class Crash(Infra):
    """The driver process was killed by a panic / fatal error raised inside the repository's own code
    (innermost module frame of the crashing goroutine is a mosdns function).  The crash has been recorded
    as a violation on the context; main() turns it into exit 1."""


def repo_panic(stderr):
    """(message, function) if the driver died of a Go panic / fatal error whose crashing goroutine's innermost
    non-runtime, non-stdlib frame is a function of the repository; None otherwise (harness frame first, no panic)"""
    m = re.search(r"^(panic: .*|fatal error: .*)$", stderr or "", re.M)
    if not m:
        return None
    tail = stderr[m.start():]
    g = re.search(r"^goroutine \d+ \[running[^\]]*\]:\n((?:.+\n?)+)", tail, re.M)
    if not g:
        return None
    for line in g.group(1).splitlines():
        if line.startswith(("\t", " ")) or line.startswith("created by"):
            continue
        fn = line.strip()
        if fn.startswith("github.com/IrineSistiana/mosdns/v5/"):
            fn = re.sub(r"\(0x[0-9a-f?, {}x.]*\)$", "", fn.split("(0x")[0] if "(0x" in fn else fn)
            return m.group(1)[:200], fn[len("github.com/IrineSistiana/mosdns/v5/"):]
        if fn.startswith("main.") or "/verif/" in fn or fn.startswith("verif"):
            return None                     # the harness itself is on top: an infrastructure problem
    return None


def log(*a):
    print("[check]", *a, flush=True)


class Ctx:
    def __init__(self, pid, tier, seed, replay=None):
        self.pid = pid
        self.tier = tier
        self.seed = seed
        self.replay = replay
        self.t0 = time.time()
        self.work = os.path.join(VERIF, ".work", "%s.%s.%d" % (pid, tier, os.getpid()))
        shutil.rmtree(self.work, ignore_errors=True)
        os.makedirs(self.work)
        self.replay_dir = os.path.join(VERIF, "replays", pid)
        self.cov = {
            "states": 0,
            "transitions": 0,
            "traces_validated_against_impl": 0,
            "samples": [],
            "evaluations": 0,
            "distinct_nontrivial": 0,
            "rule": "",
            "exhaustive": False,
            "checker_cmd": "",
            "model_runs": [],
        }
        self.assumptions = []
        self.violations = []  # (signature, what, replay_path)
        self.known_hits = []
        self.level = "model_checking"
        self._kf = load_known_findings()

    # ---- bookkeeping -------------------------------------------------
    def thorough(self):
        return self.tier == "thorough"

    def add_model_run(self, res, label):
        self.cov["states"] += res["distinct"]
        self.cov["transitions"] += res["generated"]
        self.cov["model_runs"].append(
            {"label": label, "distinct": res["distinct"], "generated": res["generated"],
             "mode": res["mode"], "wall_s": round(res["wall_s"], 1), "complete": res["complete"]})
        if not self.cov["checker_cmd"]:
            self.cov["checker_cmd"] = res["cmd"]

    def sample(self, s, limit=6):
        if len(self.cov["samples"]) < limit:
            self.cov["samples"].append(s)

    def violation(self, signature, what, replay_obj):
        """Record a deviation of the real code. signature identifies the specific failing
        input / call site / history shape (known_findings.json is matched against it)."""
        for k in self._kf:
            if k.get("status") == "finding" and k["property"] == self.pid and k["signature"] == signature:
                if signature not in [h[0] for h in self.known_hits]:
                    self.known_hits.append((signature, k.get("what", what)))
                return
        os.makedirs(self.replay_dir, exist_ok=True)
        self._nviol = getattr(self, "_nviol", 0) + 1
        path = os.path.join(self.replay_dir, "%s-%s-%d.json" % (
            re.sub(r"[^A-Za-z0-9_.-]", "_", signature)[:80], self.tier, self._nviol - 1))
        with open(path, "w") as f:
            json.dump({"property": self.pid, "signature": signature, "what": what,
                       "replay": replay_obj}, f, indent=1, default=str)
        self.violations.append((signature, what, path))

    def finish(self):
        wall = time.time() - self.t0
        ev = {
            "property_id": self.pid,
            "tier": self.tier,
            "seed": self.seed,
            "level": self.level,
            "coverage": self.cov,
            "assumptions": self.assumptions,
            "wall_s": round(wall, 2),
            "violations": len(self.violations),
        }
        if self.known_hits:
            ev["coverage"]["known_findings_hit"] = [h[0] for h in self.known_hits]
        os.makedirs(os.path.join(VERIF, "evidence"), exist_ok=True)
        if REPO == "/repo" and not self.replay:
            with open(os.path.join(VERIF, "evidence", self.pid + ".json"), "w") as f:
                json.dump(ev, f, indent=1, default=str)
                f.write("\n")
        for sig, what in self.known_hits:
            print("KNOWN-FINDING: property=%s %s (%s)" % (self.pid, what, sig), flush=True)
        shutil.rmtree(self.work, ignore_errors=True)
        if self.violations:
            seen = set()
            for sig, what, path in self.violations:
                if sig in seen:
                    continue
                seen.add(sig)
                print("VIOLATION property=%s replay=%s  # %s: %s" % (self.pid, path, sig, what), flush=True)
            return 1
        log("%s %s: held on everything explored (%.1fs, states=%d, traces=%d, evals=%d)" % (
            self.pid, self.tier, wall, self.cov["states"], self.cov["traces_validated_against_impl"],
            self.cov["evaluations"]))
        return 0


def load_known_findings():
    """known_findings.json plus fragments known_findings.d/*.json (same format), all committed."""
    out = []
    paths = [os.path.join(VERIF, "known_findings.json")]
    d = os.path.join(VERIF, "known_findings.d")
    if os.path.isdir(d):
        paths += sorted(os.path.join(d, f) for f in os.listdir(d) if f.endswith(".json"))
    for p in paths:
        if os.path.exists(p):
            with open(p) as f:
                out += json.load(f).get("findings", [])
    return out


# ---------------------------------------------------------------------------
# TLC
# ---------------------------------------------------------------------------

def _spec_scratch(ctx, name):
    """TLC litters its cwd; run it in a scratch copy of spec/."""
    d = os.path.join(ctx.work, "tlc-" + name)
    if not os.path.isdir(d):
        os.makedirs(d)
        for f in os.listdir(os.path.join(VERIF, "spec")):
            if f.endswith(".tla") or f.endswith(".cfg"):
                shutil.copy(os.path.join(VERIF, "spec", f), d)
    return d


_RE_STATES = re.compile(r"(\d+) states generated, (\d+) distinct states found, (\d+) states left on queue")
_RE_SIM = re.compile(r"The number of states generated: (\d+)")
_RE_BEH = re.compile(r'^<<"BEH", (".*")>>$')


def run_tlc(ctx, spec, cfg, name=None, workers=8, timeout=600, simulate=None, depth=None,
            extra=(), heap="6g", deque=False, cfg_text=None, defines=None, expect_violation=False, _retry=False):
    """Run TLC. Returns dict with distinct, generated, complete, violated (invariant/property/
    postcondition name or None), out (stdout text), behaviours (parsed BEH lines)."""
    name = name or (spec + "." + cfg)
    d = _spec_scratch(ctx, re.sub(r"[^A-Za-z0-9_.-]", "_", name))
    if cfg_text is not None:
        with open(os.path.join(d, cfg), "w") as f:
            f.write(cfg_text)
    meta = os.path.join(d, "meta")
    opts = ["-XX:+UseParallelGC", "-Xmx" + heap, "-Xss64m"]
    if deque:
        opts.append("-Dtlc2.tool.queue.IStateQueue=StateDeque")
    cmd = ["java"] + opts + ["-cp", TLA_CP, "tlc2.TLC", "-metadir", meta, "-workers", str(workers),
                              "-config", cfg, "-seed", str(ctx.seed)]
    if simulate is not None:
        cmd += ["-simulate", "num=%d" % simulate]
        if depth:
            cmd += ["-depth", str(depth)]
    cmd += list(extra) + [spec + ".tla"]
    t0 = time.time()
    try:
        p = subprocess.run(cmd, cwd=d, stdout=subprocess.PIPE, stderr=subprocess.STDOUT, timeout=timeout,
                           text=True, errors="replace")
        out, rc, timed_out = p.stdout, p.returncode, False
    except subprocess.TimeoutExpired as e:
        out = e.stdout if isinstance(e.stdout, str) else (e.stdout or b"").decode(errors="replace")
        rc, timed_out = -1, True
        subprocess.run(["pkill", "-f", "metadir " + meta], check=False)
    wall = time.time() - t0
    shutil.rmtree(meta, ignore_errors=True)
    res = {"cmd": " ".join(cmd[:1] + ["..."] + cmd[cmd.index("tlc2.TLC"):]).replace(d, "spec"),
           "rc": rc, "out": out, "wall_s": wall, "timed_out": timed_out,
           "mode": "simulate" if simulate is not None else "bfs",
           "distinct": 0, "generated": 0, "complete": False, "violated": None, "behaviours": []}
    for m in _RE_STATES.finditer(out):
        res["generated"], res["distinct"] = int(m.group(1)), int(m.group(2))
        res["left"] = int(m.group(3))
    if simulate is not None:
        m = _RE_SIM.search(out)
        if m:
            res["generated"] = int(m.group(1))
            res["distinct"] = max(res["distinct"], 1)
    beh = []
    for line in out.splitlines():
        m = _RE_BEH.match(line)
        if m:
            try:
                beh.append(json.loads(json.loads(m.group(1))))
            except Exception:
                pass
    res["behaviours"] = beh
    m = re.search(r"Invariant (\S+) is violated", out)
    if m:
        res["violated"] = m.group(1)
    m3 = re.search(r"Temporal property (\S+) was violated", out)
    if not res["violated"] and m3:
        res["violated"] = m3.group(1)
    m2 = re.search(r"(?:Temporal properties were violated|Action property (\S+) is violated|"
                   r"Assumption .* is false|Deadlock reached|"
                   r"The postcondition (\S+)? ?(?:is|was) (?:violated|false))", out)
    if not res["violated"] and m2:
        res["violated"] = m2.group(1) or m2.group(2) or m2.group(0)
    if "Postcondition" in out and "violated" in out and not res["violated"]:
        res["violated"] = "POSTCONDITION"
    if re.search(r"Model checking completed. No error has been found|Finished in", out) and not res["violated"] \
            and rc == 0:
        res["complete"] = True
    if simulate is not None and not res["violated"] and rc in (0,) :
        res["complete"] = True
    if timed_out and simulate is None:
        raise Infra("TLC timed out after %ds on %s/%s" % (timeout, spec, cfg))
    if not res["complete"] and not res["violated"]:
        if not _retry:
            log("TLC failed on %s/%s (rc=%s); retrying once. Last lines: %s" % (
                spec, cfg, rc, " | ".join([x for x in out.splitlines() if not x.startswith('<<"BEH"')][-6:])))
            time.sleep(2)
            return run_tlc(ctx, spec, cfg, name=name, workers=workers, timeout=timeout, simulate=simulate,
                           depth=depth, extra=extra, heap=heap, deque=deque, cfg_text=cfg_text, defines=defines,
                           expect_violation=expect_violation, _retry=True)
        raise Infra("TLC failed on %s/%s (rc=%s):\n%s" % (spec, cfg, rc, "\n".join(
            [x for x in out.splitlines() if not x.startswith('<<"BEH"')][-40:])))
    if res["violated"] and not expect_violation:
        # a design-level counterexample is *not* a violation of the code (DESIGN §2.2)
        raise Infra("design spec %s/%s violates %s — the specification is wrong or models a defect; "
                    "not a verdict on the code.\n%s" % (spec, cfg, res["violated"], out[-4000:]))
    return res


def coverage_zeros(out):
    """Parse `-coverage 1` output: actions never taken and expressions never evaluated."""
    zero_actions, zero_exprs = [], []
    for m in re.finditer(r"^<(\w+) line (\d+), col \d+ to line \d+, col \d+ of module (\w+)>: (\d+):(\d+)$", out, re.M):
        if int(m.group(5)) == 0:
            zero_actions.append(m.group(1))
    for m in re.finditer(r"^\s+\|*line (\d+), col (\d+) to line (\d+), col (\d+) of module (\w+): 0$", out, re.M):
        zero_exprs.append("%s:%s:%s" % (m.group(5), m.group(1), m.group(2)))
    return sorted(set(zero_actions)), sorted(set(zero_exprs))


def tlc_mc(ctx, spec, cfg, label=None, coverage=False, allow_zero_actions=(), **kw):
    """Leg A.  coverage=True adds `-coverage 1` and fails (Infra: vacuity) if an action of the
    spec was never taken (except those named in allow_zero_actions); never-evaluated
    sub-expressions are reported in the evidence."""
    if coverage:
        kw["extra"] = tuple(kw.get("extra", ())) + ("-coverage", "1")
    res = run_tlc(ctx, spec, cfg, **kw)
    if coverage:
        za, ze = coverage_zeros(res["out"])
        za = [a for a in za if a not in allow_zero_actions]
        ctx.cov.setdefault("vacuity", {})[spec + "/" + cfg] = {"actions_never_taken": za, "expressions_never_evaluated": ze[:40]}
        if za:
            raise Infra("vacuity: actions never taken in %s/%s: %s" % (spec, cfg, za))
    ctx.add_model_run(res, label or (spec + "/" + cfg))
    log("leg A %s/%s: %d distinct / %d generated states, %.1fs (%s)" % (
        spec, cfg, res["distinct"], res["generated"], res["wall_s"], res["mode"]))
    return res


def tlc_behaviours(ctx, spec, cfg, label=None, **kw):
    """Leg B generator: behaviours are printed by the spec as <<"BEH", ToJson(hist)>>."""
    kw.setdefault("workers", 1)
    res = run_tlc(ctx, spec, cfg, **kw)
    ctx.add_model_run(res, label or (spec + "/" + cfg + " (behaviour export)"))
    # de-duplicate (simulation may repeat)
    seen, out = set(), []
    for b in res["behaviours"]:
        k = json.dumps(b, sort_keys=True)
        if k not in seen:
            seen.add(k)
            out.append(b)
    log("leg B generator %s/%s: %d behaviours (%d distinct states, %.1fs)" % (
        spec, cfg, len(out), res["distinct"], res["wall_s"]))
    return out


def tlc_trace(ctx, spec, cfg, trace_path, name=None, timeout=600, deque=True, heap="8g"):
    """Leg C: validate an ndjson trace file against <spec>.tla (a *_Trace module that reads
    the file named by env TRACE_FILE via IOUtils!IOEnv).  Returns (accepted, info).

    Acceptance protocol (every *_Trace spec): a CONSTRAINT keeps a high-water mark of the
    trace position in TLCSet(1,..), the POSTCONDITION compares it with Len(Trace)+1 and
    prints <<"HWM", n, Len(Trace)>>.  Invariants evaluated on every reconstructed state.
    """
    name = name or ("trace-" + spec)
    d = _spec_scratch(ctx, re.sub(r"[^A-Za-z0-9_.-]", "_", name))
    meta = os.path.join(d, "meta")
    opts = ["-XX:+UseParallelGC", "-Xmx" + heap, "-Xss64m"]
    if deque:
        opts.append("-Dtlc2.tool.queue.IStateQueue=StateDeque")
    cmd = ["java"] + opts + ["-cp", TLA_CP, "tlc2.TLC", "-metadir", meta, "-workers", "1",
                              "-config", cfg, spec + ".tla"]
    env = dict(os.environ)
    env["TRACE_FILE"] = os.path.abspath(trace_path)
    t0 = time.time()
    try:
        p = subprocess.run(cmd, cwd=d, stdout=subprocess.PIPE, stderr=subprocess.STDOUT, timeout=timeout,
                           text=True, errors="replace", env=env)
    except subprocess.TimeoutExpired:
        subprocess.run(["pkill", "-f", "metadir " + meta], check=False)
        raise Infra("trace validation timed out (%s)" % spec)
    finally:
        shutil.rmtree(meta, ignore_errors=True)
    out = p.stdout
    info = {"out": out, "wall_s": time.time() - t0, "hwm": None, "len": None, "violated": None,
            "distinct": 0, "generated": 0}
    for m in _RE_STATES.finditer(out):
        info["generated"], info["distinct"] = int(m.group(1)), int(m.group(2))
    m = re.search(r'<<"HWM", (\d+), (\d+)>>', out)
    if m:
        info["hwm"], info["len"] = int(m.group(1)), int(m.group(2))
    m = re.search(r"Invariant (\S+) is violated", out)
    if m:
        info["violated"] = m.group(1)
        # position reached when the invariant failed: last "l = n" in the printed trace
        ls = re.findall(r"^/\\ l = (\d+)$", out, re.M)
        if ls:
            info["hwm"] = int(ls[-1])
        return False, info
    if info["hwm"] is None:
        raise Infra("trace validation produced no HWM line (%s):\n%s" % (spec, out[-3000:]))
    accepted = info["hwm"] == info["len"] + 1
    if accepted and p.returncode != 0:
        raise Infra("trace validation: accepted but TLC rc=%d:\n%s" % (p.returncode, out[-3000:]))
    return accepted, info


def validate_traces(ctx, spec, cfg, traces, max_reject=6, chunk=4000, label=None, timeout=900):
    """Leg C over many traces: each trace is a list of events whose first event resets the
    trace spec. Traces are concatenated (chunks of <= `chunk` lines) and validated in one TLC run
    per chunk; a rejected trace is identified from the high-water mark, reported, removed, and the
    remainder re-validated.  Returns (n_accepted, rejected) with rejected = [(index, info)]."""
    rejected, accepted = [], 0
    chunks, cur, cur_lines = [], [], 0
    for i, t in enumerate(traces):
        if not t:
            continue
        if cur and cur_lines + len(t) > chunk:
            chunks.append(cur)
            cur, cur_lines = [], 0
        cur.append(i)
        cur_lines += len(t)
    if cur:
        chunks.append(cur)
    n_runs = 0
    for ci, idxs in enumerate(chunks):
        idxs = list(idxs)
        while idxs:
            if len(rejected) >= max_reject:
                return accepted, rejected
            path = os.path.join(ctx.work, "trace-%s-%d.ndjson" % (spec, ci))
            starts, events = [], []
            for i in idxs:
                starts.append(len(events) + 1)
                events.extend(traces[i])
            write_ndjson(path, events)
            ok, info = tlc_trace(ctx, spec, cfg, path, name="trace-%s-%d" % (spec, ci), timeout=timeout)
            n_runs += 1
            ctx.cov["states"] += info["distinct"]
            ctx.cov["transitions"] += info["generated"]
            if ok:
                accepted += len(idxs)
                break
            # the line that could not be consumed
            bad_line = info["hwm"] if info["hwm"] else 1
            k = 0
            for j, st in enumerate(starts):
                if st <= bad_line:
                    k = j
            info["line_in_trace"] = bad_line - starts[k] + 1
            info["event"] = events[bad_line - 1] if 0 < bad_line <= len(events) else None
            rejected.append((idxs[k], info))
            accepted += k
            idxs = idxs[k + 1:]
    ctx.cov["traces_validated_against_impl"] += accepted
    ctx.cov.setdefault("trace_validation_runs", 0)
    ctx.cov["trace_validation_runs"] += n_runs
    log("leg C %s: %d traces accepted, %d rejected (%d TLC runs)" % (label or spec, accepted, len(rejected), n_runs))
    return accepted, rejected


def assert_rejects(ctx, spec, cfg, corrupted_traces, what):
    """Binding self-check: traces that were accepted and then had one recorded field corrupted
    must be rejected by the trace spec; otherwise the trace spec does not constrain that field
    (an infrastructure problem, never a verdict).  Does not count towards evidence totals."""
    n = 0
    for t in corrupted_traces:
        path = os.path.join(ctx.work, "corrupt-%s-%d.ndjson" % (spec, n))
        write_ndjson(path, t)
        ok, info = tlc_trace(ctx, spec, cfg, path, name="corrupt-%s" % spec)
        if ok:
            raise Infra("binding self-check failed: corrupted trace (%s) was accepted by %s: %s" % (what, spec, t))
        n += 1
    ctx.cov.setdefault("binding_selfchecks", [])
    ctx.cov["binding_selfchecks"].append("%d corrupted trace(s) rejected: %s" % (n, what))
    log("binding self-check: %d corrupted trace(s) rejected by %s (%s)" % (n, spec, what))


# ---------------------------------------------------------------------------
# Go harness
# ---------------------------------------------------------------------------

def go_env():
    env = dict(os.environ)
    env.update(GOENV)
    env.pop("GOFLAGS", None)
    env["GOFLAGS"] = "-mod=mod"
    return env


def harness_modfile(ctx):
    """Alternate go.mod for the harness module with `replace => REPO` (so that selftests can
    point the same check at a patched scratch copy)."""
    mf = os.path.join(ctx.work, "harness.mod")
    if os.path.exists(mf):
        return mf
    with open(os.path.join(VERIF, "harness", "go.mod")) as f:
        txt = f.read()
    txt = re.sub(r"(replace github.com/IrineSistiana/mosdns/v5 => )\S+", r"\g<1>" + REPO, txt)
    with open(mf, "w") as f:
        f.write(txt)
    shutil.copy(os.path.join(REPO, "go.sum"), os.path.join(ctx.work, "harness.sum"))
    return mf


def go_build(ctx, pkg, race=False, tags="verif", test=False, timeout=900):
    """Build ./<pkg> of the harness module against REPO's current working tree."""
    mf = harness_modfile(ctx)
    out = os.path.join(ctx.work, "bin-" + pkg.replace("/", "_") + ("-race" if race else ""))
    if test:
        cmd = ["go", "test", "-c", "-vet=off"]
    else:
        cmd = ["go", "build"]
    cmd += ["-modfile", mf, "-tags", tags, "-o", out]
    if race:
        cmd.append("-race")
    cmd.append("./" + pkg)
    t0 = time.time()
    p = subprocess.run(cmd, cwd=os.path.join(VERIF, "harness"), env=go_env(), stdout=subprocess.PIPE,
                       stderr=subprocess.STDOUT, text=True, timeout=timeout)
    if p.returncode != 0:
        raise Infra("go build %s failed:\n%s" % (pkg, p.stdout[-4000:]))
    log("built %s from %s in %.1fs%s" % (pkg, REPO, time.time() - t0, " (-race)" if race else ""))
    return out


def run_driver(ctx, binary, args=(), stdin_obj=None, timeout=900, env_extra=None, ok_codes=(0,)):
    """Run a harness driver. Drivers read a JSON job on stdin and write one JSON object per line
    on stdout (results / trace events); diagnostics go to stderr."""
    env = go_env()
    env["VERIF_SEED"] = str(ctx.seed)
    env["VERIF_TIER"] = ctx.tier
    if env_extra:
        env.update(env_extra)
    inp = json.dumps(stdin_obj) if stdin_obj is not None else None
    try:
        p = subprocess.run([binary] + list(args), input=inp, stdout=subprocess.PIPE, stderr=subprocess.PIPE,
                           text=True, timeout=timeout, env=env, cwd=ctx.work)
    except subprocess.TimeoutExpired:
        raise Infra("driver %s timed out after %ds" % (os.path.basename(binary), timeout))
    if p.returncode not in ok_codes:
        rp = repo_panic(p.stderr)
        if rp is not None:
            msg, fn = rp
            job = stdin_obj if inp is not None and len(inp) < 3000000 else None
            ctx.violation("process-crash:%s" % fn,
                          "the process running the real code was killed by '%s' raised in %s (repository code, not the harness)" % (msg, fn),
                          {"crash": p.stderr[-6000:], "driver": os.path.basename(binary).replace("bin-", "", 1), "args": list(args), "job": job})
            raise Crash("driver %s crashed inside repository code: %s in %s" % (os.path.basename(binary), msg, fn))
        raise Infra("driver %s exited %d:\n%s\n%s" % (os.path.basename(binary), p.returncode,
                                                      p.stdout[-2000:], p.stderr[-4000:]))
    recs = []
    for line in p.stdout.splitlines():
        line = line.strip()
        if line.startswith("{"):
            try:
                recs.append(json.loads(line))
            except Exception:
                raise Infra("driver emitted unparsable line: " + line[:300])
    return recs, p.stderr


def write_ndjson(path, events):
    with open(path, "w") as f:
        for e in events:
            f.write(json.dumps(e, sort_keys=True))
            f.write("\n")


class Background:
    """Run an extension module's run_extra(ctx) concurrently with the main part of a check (the
    extensions mostly wait on real-time timeouts).  The extension works on a sub-context that shares
    the violation lists and scratch dir but has its own coverage dict, merged in join(); join()
    re-raises what the extension raised."""

    def __init__(self, ctx, fn, name):
        import copy
        import threading
        self.exc = None
        self.name = name
        self.ctx = ctx
        self.sub = copy.copy(ctx)
        self.sub.cov = {"states": 0, "transitions": 0, "traces_validated_against_impl": 0, "samples": [],
                        "evaluations": 0, "distinct_nontrivial": 0, "rule": "", "exhaustive": False,
                        "checker_cmd": "", "model_runs": []}
        self.sub.assumptions = []

        def target():
            try:
                fn(self.sub)
            except BaseException as e:  # noqa: re-raised in join()
                self.exc = e
        self.t = threading.Thread(target=target, name=name, daemon=True)
        self.t.start()

    def join(self):
        self.t.join()
        c, sc = self.ctx.cov, self.sub.cov
        for k in ("states", "transitions", "traces_validated_against_impl", "evaluations", "distinct_nontrivial"):
            c[k] = c.get(k, 0) + sc.get(k, 0)
        c.setdefault("model_runs", []).extend(sc.get("model_runs", []))
        for smp in sc.get("samples", [])[:2]:
            c.setdefault("samples", []).append(smp)
        for k, v in sc.items():
            if k in ("states", "transitions", "traces_validated_against_impl", "evaluations", "distinct_nontrivial",
                     "model_runs", "samples", "rule", "exhaustive", "checker_cmd"):
                continue
            if isinstance(v, dict):
                c.setdefault(k, {}).update(v)
            elif isinstance(v, list):
                c.setdefault(k, []).extend(v)
            else:
                c.setdefault(k, v)
        self.ctx.assumptions += self.sub.assumptions
        if self.exc is not None:
            raise self.exc


def background(ctx, fn, name="extension"):
    return Background(ctx, fn, name)


# ---------------------------------------------------------------------------
# entry point
# ---------------------------------------------------------------------------

def main(argv):
    import importlib
    if len(argv) < 3:
        print("usage: check <Cxx> <quick|thorough> [--replay file]")
        return 2
    pid, tier = argv[1], argv[2]
    replay = None
    if "--replay" in argv:
        replay = argv[argv.index("--replay") + 1]
    seed = int(os.environ.get("VERIF_SEED", "1") or "1")
    sys.path.insert(0, os.path.join(VERIF, "checks"))
    ctx = Ctx(pid, tier, seed, replay)
    try:
        if replay:
            try:
                _r = json.load(open(replay))
            except Exception:
                _r = {}
            if str(_r.get("signature", "")).startswith("process-crash:") and isinstance(_r.get("replay"), dict) and _r["replay"].get("job") is not None:
                # re-run the recorded driver job on the current tree: the crash either happens again (violation) or not
                rp = _r["replay"]
                run_driver(ctx, go_build(ctx, rp["driver"]), args=rp.get("args", ()), stdin_obj=rp["job"], timeout=1500)
                return ctx.finish()
        mod = importlib.import_module(pid)
        mod.run(ctx)
        return ctx.finish()
    except Crash as e:
        log(str(e))
        return ctx.finish()
    except Infra as e:
        print("[check] INFRASTRUCTURE ERROR (not a verdict): %s" % e, flush=True)
        shutil.rmtree(ctx.work, ignore_errors=True)
        return 2
    except subprocess.TimeoutExpired as e:
        print("[check] INFRASTRUCTURE ERROR (timeout): %s" % e, flush=True)
        shutil.rmtree(ctx.work, ignore_errors=True)
        return 2
